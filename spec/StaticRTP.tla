------------------------------ MODULE StaticRTP ------------------------------
(* Generative model of TrackLocalStaticRTP (track_local_static.go) for C29. *)
(*                                                                          *)
(* Implementation state, transcribed at the grain of the code:             *)
(*   bseq  = track.bindings, a *sequence* of binding records; Bind appends, *)
(*           Unbind overwrites the first record with the given id by the    *)
(*           last one and truncates (swap-delete), writeRTP walks it in     *)
(*           order and rewrites SSRC / payload type / Header.PaddingSize of *)
(*           ONE working packet before handing header+payload to each       *)
(*           binding's writer.                                              *)
(*   WriteRTP(p) works on a pooled shallow copy of *p; Write(bytes) on a    *)
(*           pooled packet filled by Unmarshal.                             *)
(* Ghost state (normative bookkeeping of the history): bset.                *)
(*                                                                          *)
(* Named alternatives (constants) let TLC exhibit what the normative        *)
(* operators forbid:  Copy = "inplace" (writeRTP straight on the caller's   *)
(* packet) violates CallerUntouched;  Unbinder = "poplast" (drop the last   *)
(* binding instead of the named one) violates EachBoundOnce / OnlyBound;    *)
(* PadFix = FALSE (no copy of Packet.PaddingSize into the header) violates  *)
(* RestUnchanged for packets that carry the padding length in the           *)
(* deprecated field only.                                                   *)
EXTENDS StaticRTPOps

CONSTANTS NIds,      \* sender contexts are 1..NIds
          MaxSteps,  \* bound on the history length
          Copy,      \* "pooled" (pion) | "inplace"
          Unbinder,  \* "swapdelete" (pion) | "poplast"
          PadFix     \* TRUE (pion) | FALSE

VARIABLES bseq, bset, n, last, out, cafter

vars == <<bseq, bset, n, last, out, cafter>>
graphview == bseq    \* for the run that only emits the labelled graph

Senders == 1..NIds
Ctx == [i \in Senders |-> [ssrc |-> 1000 + i, pt |-> 96 + (i % 2)]]   \* 1 and 3 share a payload type

CCs   == {0, 2, 15}
Exts  == {"none", "one", "two"}
Pads  == {"none", "hdr", "legacy"}     \* where the padding length lives in the caller's rtp.Packet
APIs  == {"WriteRTP", "Write"}

BoundIds == {bseq[k].id : k \in DOMAIN bseq}
St == [bound |-> [k \in DOMAIN bseq |-> bseq[k].id]]

\* the caller's packet: the two rewritable fields, the two homes of the padding length, the rest
CallerPkt(api, cc, ext, pad) ==
  [ssrc |-> 7, pt |-> 5,
   hpad |-> IF pad = "hdr" THEN 4 ELSE 0,
   ppad |-> IF pad = "legacy" \/ (pad = "hdr" /\ api = "Write") THEN 4 ELSE 0,   \* Unmarshal fills both
   body |-> [cc |-> cc, ext |-> ext]]

CallerRest(p)  == [body |-> p.body, pad |-> EffectivePad(p.hpad, p.ppad)]
\* what a writer can see: it is handed &packet.Header and packet.Payload only
WriterRest(p)  == [body |-> p.body, pad |-> p.hpad]

\* the loop of writeRTP over the bindings, mutating the one working packet
RECURSIVE Loop(_, _, _)
Loop(bs, pkt, acc) ==
  IF bs = <<>> THEN [pkt |-> pkt, out |-> acc]
  ELSE LET b  == Head(bs)
           p1 == [pkt EXCEPT !.ssrc = b.ssrc, !.pt = b.pt,
                             !.hpad = IF PadFix /\ pkt.ppad # 0 /\ pkt.hpad = 0 THEN pkt.ppad ELSE pkt.hpad]
       IN Loop(Tail(bs), p1, Append(acc, [id |-> b.id, ssrc |-> p1.ssrc, pt |-> p1.pt, rest |-> WriterRest(p1)]))

NoAct == [op |-> "init", id |-> 0, api |-> "none", cc |-> 0, ext |-> "none", pad |-> "none", exp |-> "ok"]

Init == /\ bseq = <<>> /\ bset = {} /\ n = 0 /\ last = NoAct
        /\ out = <<>> /\ cafter = CallerPkt("WriteRTP", 0, "none", "none")

Bind(i) ==
  /\ i \notin BoundIds                    \* a PeerConnection binds a context once
  /\ bseq' = Append(bseq, [id |-> i, ssrc |-> Ctx[i].ssrc, pt |-> Ctx[i].pt])
  /\ bset' = bset \cup {i}
  /\ last' = [NoAct EXCEPT !.op = "Bind", !.id = i]
  /\ UNCHANGED <<out, cafter>>

\* a context whose negotiated codecs do not contain the track's codec: ErrUnsupportedCodec, no binding
BindBad(i) ==
  /\ i \notin BoundIds
  /\ last' = [NoAct EXCEPT !.op = "BindBad", !.id = i, !.exp = "err"]
  /\ UNCHANGED <<bseq, bset, out, cafter>>

FirstIdx(i) == CHOOSE k \in DOMAIN bseq : bseq[k].id = i /\ \A j \in DOMAIN bseq : bseq[j].id = i => k <= j

Unbind(i) ==
  /\ IF i \in BoundIds
     THEN /\ bseq' = IF Unbinder = "swapdelete"
                     THEN SubSeq([bseq EXCEPT ![FirstIdx(i)] = bseq[Len(bseq)]], 1, Len(bseq) - 1)
                     ELSE SubSeq(bseq, 1, Len(bseq) - 1)
          /\ last' = [NoAct EXCEPT !.op = "Unbind", !.id = i]
     ELSE /\ UNCHANGED bseq
          /\ last' = [NoAct EXCEPT !.op = "Unbind", !.id = i, !.exp = "err"]   \* ErrUnbindFailed
  /\ bset' = bset \ {i}
  /\ UNCHANGED <<out, cafter>>

Write(api, cc, ext, pad) ==
  /\ api = "Write" => pad # "legacy"          \* the wire format has one padding length
  /\ LET c == CallerPkt(api, cc, ext, pad)
         r == Loop(bseq, c, <<>>)
     IN /\ out' = r.out
        /\ cafter' = IF Copy = "inplace" /\ api = "WriteRTP" THEN r.pkt ELSE c
  /\ last' = [op |-> "Write", id |-> 0, api |-> api, cc |-> cc, ext |-> ext, pad |-> pad, exp |-> "ok"]
  /\ UNCHANGED <<bseq, bset>>

Next ==
  /\ n < MaxSteps /\ n' = n + 1
  /\ \/ \E i \in Senders : Bind(i) \/ BindBad(i) \/ Unbind(i)
     \/ \E api \in APIs, cc \in CCs, ext \in Exts, pad \in Pads : Write(api, cc, ext, pad)

Spec == Init /\ [][Next]_vars

\* ---- what TLC checks on the model --------------------------------------------------------------
TypeOK == /\ bset \subseteq Senders /\ n \in 0..MaxSteps
          /\ \A k \in DOMAIN bseq : bseq[k].id \in Senders

\* the implementation's sequence represents the normative set, without repetition
ModelBindingsAreSet == BoundIds = bset /\ Len(bseq) = Cardinality(bset)

Written == last.op = "Write"
LastCaller == CallerPkt(last.api, last.cc, last.ext, last.pad)

ModelEachBoundOnce   == Written => EachBoundOnce(bset, out)
ModelNoneAfterUnbind == Written => OnlyBound(bset, out)
ModelRewritten       == Written => RewrittenHeader(Ctx, out)
ModelRestUnchanged   == Written => RestUnchanged(CallerRest(LastCaller), out)
ModelCallerUntouched == Written => CallerUntouched(LastCaller, cafter)

\* ---- emission of the labelled state graph ------------------------------------------------------
EmitInitInv == (last.op = "init") => PrintT(<<"VERIF_INIT", ToJson(St)>>)
EmitEdge == PrintT(<<"VERIF_EDGE", ToJson([f |-> St, a |-> last', t |-> St'])>>)
=============================================================================
