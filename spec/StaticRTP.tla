------------------------------ MODULE StaticRTP ------------------------------
(* Generative model of TrackLocalStaticRTP (track_local_static.go) for C29. *)
(*                                                                          *)
(* Implementation state, transcribed at the grain of the code:             *)
(*   bseq  = track.bindings, a *sequence* of binding records; Bind appends, *)
(*           Unbind overwrites the first record with the given id by the    *)
(*           last one and truncates (swap-delete), writeRTP walks it in     *)
(*           order and rewrites SSRC / payload type / Header.PaddingSize of *)
(*           ONE working packet before handing header+payload to each       *)
(*           binding's writer.                                              *)
(*   WriteRTP(p) works on a pooled shallow copy of *p; Write(bytes) on a    *)
(*           pooled packet filled by Unmarshal.                             *)
(* Ghost state (normative bookkeeping of the history): bset.                *)
(*                                                                          *)
(* Named alternatives (constants) let TLC exhibit what the normative        *)
(* operators forbid:  Copy = "inplace" (writeRTP straight on the caller's   *)
(* packet) violates CallerUntouched;  Unbinder = "poplast" (drop the last   *)
(* binding instead of the named one) violates EachBoundOnce / OnlyBound;    *)
(* PadFix = FALSE (no copy of Packet.PaddingSize into the header) violates  *)
(* RestUnchanged for packets that carry the padding length in the           *)
(* deprecated field only.                                                   *)
(*                                                                          *)
(* Overlapping calls.  writeRTP holds the track's read lock for the whole   *)
(* fan-out, Bind / Unbind take the write lock: a Bind or Unbind called      *)
(* while a write is under way waits, i.e. Write is atomic with respect to   *)
(* them.  WriteDuring(shape, cop, i) is that situation as one action: the   *)
(* write has reached its first sender when cop(i) is called from another    *)
(* goroutine.  Lock = "held" (pion): the write completes over the bindings  *)
(* it started with, then cop takes effect.  Lock = "snapshot" (named wrong  *)
(* alternative): the write iterates an unlocked copy of the slice header    *)
(* while Unbind swap-deletes in the shared backing array -- the last sender *)
(* gets the packet twice, the removed one never.  The normative reading of  *)
(* "every currently bound sender exactly once" for overlapping calls is     *)
(* linearizability: the deliveries must be right for the set bound before   *)
(* or for the set bound after the concurrent call.                          *)
EXTENDS StaticRTPOps

CONSTANTS NIds,      \* sender contexts are 1..NIds
          MaxSteps,  \* bound on the history length
          Copy,      \* "pooled" (pion) | "inplace"
          Unbinder,  \* "swapdelete" (pion) | "poplast"
          PadFix,    \* TRUE (pion) | FALSE
          Lock       \* "held" (pion: fan-out under the read lock) | "snapshot"

VARIABLES bseq, bset, n, last, out, cafter,
          bset0      \* ghost: the senders bound when the last write began

vars == <<bseq, bset, n, last, out, cafter, bset0>>
graphview == bseq    \* for the run that only emits the labelled graph

Senders == 1..NIds
Ctx == [i \in Senders |-> [ssrc |-> 1000 + i, pt |-> 96 + (i % 2)]]   \* 1 and 3 share a payload type

CCs   == {0, 2, 15}
Exts  == {"none", "one", "two"}
Pads  == {"none", "hdr", "legacy"}     \* where the padding length lives in the caller's rtp.Packet
APIs  == {"WriteRTP", "Write"}

BoundIds == {bseq[k].id : k \in DOMAIN bseq}
St == [bound |-> [k \in DOMAIN bseq |-> bseq[k].id]]

\* the caller's packet: the two rewritable fields, the two homes of the padding length, the rest
CallerPkt(api, cc, ext, pad) ==
  [ssrc |-> 7, pt |-> 5,
   hpad |-> IF pad = "hdr" THEN 4 ELSE 0,
   ppad |-> IF pad = "legacy" \/ (pad = "hdr" /\ api = "Write") THEN 4 ELSE 0,   \* Unmarshal fills both
   body |-> [cc |-> cc, ext |-> ext]]

CallerRest(p)  == [body |-> p.body, pad |-> EffectivePad(p.hpad, p.ppad)]
\* what a writer can see: it is handed &packet.Header and packet.Payload only
WriterRest(p)  == [body |-> p.body, pad |-> p.hpad]

\* the loop of writeRTP over the bindings, mutating the one working packet
RECURSIVE Loop(_, _, _)
Loop(bs, pkt, acc) ==
  IF bs = <<>> THEN [pkt |-> pkt, out |-> acc]
  ELSE LET b  == Head(bs)
           p1 == [pkt EXCEPT !.ssrc = b.ssrc, !.pt = b.pt,
                             !.hpad = IF PadFix /\ pkt.ppad # 0 /\ pkt.hpad = 0 THEN pkt.ppad ELSE pkt.hpad]
       IN Loop(Tail(bs), p1, Append(acc, [id |-> b.id, ssrc |-> p1.ssrc, pt |-> p1.pt, rest |-> WriterRest(p1)]))

NoAct == [op |-> "init", id |-> 0, api |-> "none", cc |-> 0, ext |-> "none", pad |-> "none", exp |-> "ok", cop |-> "none"]

Init == /\ bseq = <<>> /\ bset = {} /\ n = 0 /\ last = NoAct
        /\ out = <<>> /\ cafter = CallerPkt("WriteRTP", 0, "none", "none") /\ bset0 = {}

Bind(i) ==
  /\ i \notin BoundIds                    \* a PeerConnection binds a context once
  /\ bseq' = Append(bseq, [id |-> i, ssrc |-> Ctx[i].ssrc, pt |-> Ctx[i].pt])
  /\ bset' = bset \cup {i}
  /\ last' = [NoAct EXCEPT !.op = "Bind", !.id = i]
  /\ UNCHANGED <<out, cafter, bset0>>

\* a context whose negotiated codecs do not contain the track's codec: ErrUnsupportedCodec, no binding
BindBad(i) ==
  /\ i \notin BoundIds
  /\ last' = [NoAct EXCEPT !.op = "BindBad", !.id = i, !.exp = "err"]
  /\ UNCHANGED <<bseq, bset, out, cafter, bset0>>

FirstIdx(i) == CHOOSE k \in DOMAIN bseq : bseq[k].id = i /\ \A j \in DOMAIN bseq : bseq[j].id = i => k <= j

Unbind(i) ==
  /\ IF i \in BoundIds
     THEN /\ bseq' = IF Unbinder = "swapdelete"
                     THEN SubSeq([bseq EXCEPT ![FirstIdx(i)] = bseq[Len(bseq)]], 1, Len(bseq) - 1)
                     ELSE SubSeq(bseq, 1, Len(bseq) - 1)
          /\ last' = [NoAct EXCEPT !.op = "Unbind", !.id = i]
     ELSE /\ UNCHANGED bseq
          /\ last' = [NoAct EXCEPT !.op = "Unbind", !.id = i, !.exp = "err"]   \* ErrUnbindFailed
  /\ bset' = bset \ {i}
  /\ UNCHANGED <<out, cafter, bset0>>

Write(api, cc, ext, pad) ==
  /\ api = "Write" => pad # "legacy"          \* the wire format has one padding length
  /\ LET c == CallerPkt(api, cc, ext, pad)
         r == Loop(bseq, c, <<>>)
     IN /\ out' = r.out
        /\ cafter' = IF Copy = "inplace" /\ api = "WriteRTP" THEN r.pkt ELSE c
  /\ last' = [op |-> "Write", id |-> 0, api |-> api, cc |-> cc, ext |-> ext, pad |-> pad, exp |-> "ok", cop |-> "none"]
  /\ bset0' = bset
  /\ UNCHANGED <<bseq, bset>>

\* swap-delete of the first record with id i, in place: the array keeps its length, the last slot
\* keeps its old content (a slice header taken earlier still sees all of it)
SwapDeleted(arr, i) == [arr EXCEPT ![CHOOSE k \in DOMAIN arr : arr[k].id = i /\ \A j \in DOMAIN arr : arr[j].id = i => k <= j] = arr[Len(arr)]]

\* A write that has reached its first sender when cop(i) -- "Bind" of an unbound sender or "Unbind" of
\* a bound one -- is called from another goroutine.
WriteDuring(api, cop, i) ==
  /\ bseq # <<>>
  /\ \/ cop = "Unbind" /\ i \in BoundIds
     \/ cop = "Bind" /\ i \notin BoundIds
  /\ LET c    == CallerPkt(api, 0, "none", "none")
         rec  == [id |-> i, ssrc |-> Ctx[i].ssrc, pt |-> Ctx[i].pt]
         after == IF cop = "Bind" THEN Append(bseq, rec)
                  ELSE SubSeq(SwapDeleted(bseq, i), 1, Len(bseq) - 1)
         \* what the rest of the fan-out walks: the bindings the write started with (lock held), or the
         \* same slice header over the array as Unbind left it (Bind appends beyond the header's length)
         rest == IF Lock = "held" \/ cop = "Bind" THEN Tail(bseq) ELSE Tail(SwapDeleted(bseq, i))
         r1   == Loop(<<Head(bseq)>>, c, <<>>)
         r    == Loop(rest, r1.pkt, r1.out)
     IN /\ out' = r.out
        /\ cafter' = IF Copy = "inplace" /\ api = "WriteRTP" THEN r.pkt ELSE c
        /\ bseq' = after
  /\ bset0' = bset
  /\ bset' = IF cop = "Bind" THEN bset \cup {i} ELSE bset \ {i}
  /\ last' = [op |-> "WriteDuring", id |-> i, api |-> api, cc |-> 0, ext |-> "none", pad |-> "none", exp |-> "ok", cop |-> cop]

Next ==
  /\ n < MaxSteps /\ n' = n + 1
  /\ \/ \E i \in Senders : Bind(i) \/ BindBad(i) \/ Unbind(i)
     \/ \E api \in APIs, cc \in CCs, ext \in Exts, pad \in Pads : Write(api, cc, ext, pad)
     \/ \E api \in APIs, cop \in {"Bind", "Unbind"}, i \in Senders : WriteDuring(api, cop, i)

Spec == Init /\ [][Next]_vars

\* ---- what TLC checks on the model --------------------------------------------------------------
TypeOK == /\ bset \subseteq Senders /\ n \in 0..MaxSteps
          /\ \A k \in DOMAIN bseq : bseq[k].id \in Senders

\* the implementation's sequence represents the normative set, without repetition
ModelBindingsAreSet == BoundIds = bset /\ Len(bseq) = Cardinality(bset)

Written == last.op = "Write"
Overlapped == last.op = "WriteDuring"
LastCaller == CallerPkt(last.api, last.cc, last.ext, last.pad)

ModelEachBoundOnce   == Written => EachBoundOnce(bset, out)
ModelNoneAfterUnbind == Written => OnlyBound(bset, out)
ModelRewritten       == Written => RewrittenHeader(Ctx, out)
ModelRestUnchanged   == Written => RestUnchanged(CallerRest(LastCaller), out)
ModelCallerUntouched == (Written \/ Overlapped) => CallerUntouched(LastCaller, cafter)
\* overlapping calls: right for the senders bound before, or for those bound after, the concurrent call
ModelLinearizable    == Overlapped => (LinearizedOn(bset0, out) \/ LinearizedOn(bset, out))
ModelOverlapRewritten == Overlapped => (RewrittenHeader(Ctx, out) /\ RestUnchanged(CallerRest(LastCaller), out))

\* ---- emission of the labelled state graph ------------------------------------------------------
EmitInitInv == (last.op = "init") => PrintT(<<"VERIF_INIT", ToJson(St)>>)
EmitEdge == PrintT(<<"VERIF_EDGE", ToJson([f |-> St, a |-> last', t |-> St'])>>)
=============================================================================
