CONSTANTS
  Impl = "current"
  K = 2
  Pool = 1
SPECIFICATION Spec
INVARIANTS NothingAfterNil NilAtMostOnce CandAtMostOnce Complete
CHECK_DEADLOCK FALSE
