----------------------------- MODULE Concur_Trace -----------------------------
(* Trace specification for C40.  prog: one concurrent program ran (did every    *)
(* call return, did Close return); race: one distinct report of the Go race     *)
(* detector (the pair of library functions whose accesses conflict), collected   *)
(* from the detector's log by the orchestrator; summary: totals.                *)
EXTENDS TraceKit

VARIABLES pos, viol, cnt
Preds(e) == {
   P("C40", "EveryCallReturns", e.ev = "prog", e.returned /\ e.closeReturned),
   P("C40", "NoRaceReport", e.ev = "race", FALSE),
   P("C40", "RaceFree", e.ev = "summary", e.races = 0)
  }
Init == pos = 1 /\ viol = {} /\ cnt = EmptyCount
Step ==
  /\ pos <= Len(Trace)
  /\ LET e == Trace[pos] IN
       IF e.ev = "reset" THEN UNCHANGED <<viol, cnt>>
       ELSE LET ps == Preds(e) IN viol' = Merge(viol, Failures(ps, e, pos)) /\ cnt' = Count(cnt, ps)
  /\ pos' = pos + 1
Done == pos = Len(Trace) + 1 /\ UNCHANGED <<pos, viol, cnt>>
Next == Step \/ Done
Rep  == Report(pos, viol, cnt)
=============================================================================
