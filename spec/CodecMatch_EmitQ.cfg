CONSTANTS
  Impl = "intended"
  Clocks <- ClocksFull
  Chans <- ChansFull
  Partners = 18
  Groups = 1
  Emit = TRUE
INIT Init
NEXT Next
INVARIANTS EmitVec
CHECK_DEADLOCK FALSE
