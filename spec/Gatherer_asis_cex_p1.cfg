CONSTANTS
  Impl = "asis"
  K = 1
  Pool = 1
  NFlush = 2
SPECIFICATION Spec
INVARIANTS NothingAfterNil NilAtMostOnce CandAtMostOnce Complete
CHECK_DEADLOCK FALSE
