CONSTANTS
  RecordPath = TRUE
  MaxSteps = 9
  ExplicitIds = {0, 1, 2, 3, 4, 7}
  MaxChans = 7
INIT Init
NEXT Next
INVARIANT EmitPath
CHECK_DEADLOCK FALSE
