\* exhaustive (thorough tier), assembly automaton: streams of <= 3 frames over a reduced size alphabet
CONSTANTS
  Codecs <- AllCodecs
  Mtus = {12}
  MaxFrames = 3
  Sizes = {1, 12, 23}
  RelSizes = FALSE
  MaxRandPk = 0
  Rates <- RatesOne
  Starts <- StartsOne
  Deltas = {3000}
  MaxRandDelta = 0
  Directs = {FALSE}
  Ctors = {"memseek"}
  Dims <- DimsOne
  Lossy = TRUE
  NonKeyStart = TRUE
  Pads = FALSE
  Sample = FALSE
  Emit = FALSE
  RdLimit = 16
  BigDeltas <- NoDeltas
  MaxBig = 0
  InitSample = 0
INIT Init
NEXT Next
INVARIANTS TypeOK ModelReadBack ModelHeader ModelCount ModelPts ModelPremiseAssemblesAll ModelKeyGate ModelWholeFrames
CHECK_DEADLOCK FALSE
