CONSTANTS
  Impl = "intended"
  Codecs = {"h264", "h265"}
  MTUs = {1200}
  Sizes = {"s", "L255", "L256", "L257", "L300", "L700"}
  MaxNals = 2
  Openers = {FALSE}
  Aggs = {TRUE}
  Types264 = {1, 5, 6, 7, 8}
  Types265 = {1, 19, 32, 39}
  Emit = TRUE
INIT Init
NEXT Next
INVARIANTS Correct TailAlways PktfixExactUnlessAggN EmitVec
CHECK_DEADLOCK FALSE
