------------------------------ MODULE SerdeOps ------------------------------
(* Property C38: public value types survive their JSON / text / PEM          *)
(* encodings.  Normative operators only.                                     *)
(*                                                                          *)
(* An observation is: a value was built, encoded, the encoding decoded; both *)
(* the value and the decoded value were projected by the same function onto  *)
(* a sequence of tokens, one per field (strings, numbers and booleans        *)
(* verbatim or hashed; nil and empty collections give the same token; a nil  *)
(* pointer and a pointer to a zero value give different tokens; times by     *)
(* instant), together with the Go type of each.                              *)
EXTENDS Naturals, Sequences, FiniteSets, TLC, Json

\* "decoding its JSON or text encoding yields an equal value"
C38_RoundTrip(encOk, decOk, otype, dtype, orig, dec) ==
  encOk /\ decOk /\ dtype = otype /\ dec = orig

(* String()/newX(raw) pairs that are no codec (no Marshal/Unmarshal method): the parser of external    *)
(* text returns the zero "Unknown" sentinel together with an error for text it does not know, and     *)
(* the sentinel's own String() is such a text.  The property speaks of encodings of values; for the   *)
(* sentinel of such a pair only the value is required to come back, the error is tolerated.           *)
C38_RoundTripSentinel(encOk, orig, dec) == encOk /\ dec = orig

\* "a certificate exported with PEM() and re-imported with CertificateFromPEM is Equal to the original
\*  and has the same fingerprint and expiry" (orig/dec = <<fingerprint, expiry>> tokens)
C38_PemRoundTrip(encOk, decOk, equals, orig, dec) == encOk /\ decOk /\ equals /\ dec = orig
=============================================================================
