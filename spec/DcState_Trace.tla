----------------------------- MODULE DcState_Trace -----------------------------
(* Trace specification for C20.  store: a value stored to readyState (hook next *)
(* to the store); handler: OnOpen / OnClose ran (n = how many times so far);    *)
(* end: final state, whether Close was called, whether the transport is gone,  *)
(* and whether Send on the channel returned an error.  Order-sensitive          *)
(* Monotone is judged on gate-driven runs only (ordered).                       *)
EXTENDS TraceKit

VARIABLES pos, viol, cnt, top

Rank(s) == CASE s = "connecting" -> 1 [] s = "open" -> 2 [] s = "closing" -> 3 [] s = "closed" -> 4 [] OTHER -> 0

Preds(e) == {
   P("C20", "Monotone", e.ev = "store" /\ e.ordered, Rank(e.to) >= top),
   P("C20", "EndsClosed", e.ev = "end" /\ e.quiesced /\ e.closeCalled /\ e.gone, e.to = "closed"),
   P("C20", "OpenOnce", e.ev = "handler" /\ e.to = "open", e.n <= 1),
   P("C20", "CloseOnce", e.ev = "handler" /\ e.to = "close", e.n <= 1),
   P("C20", "SendRejectedUnlessOpen", e.ev = "end" /\ e.to # "open", e.sendErr)
  }

Init == pos = 1 /\ viol = {} /\ cnt = EmptyCount /\ top = 0

Step ==
  /\ pos <= Len(Trace)
  /\ LET e == Trace[pos] IN
       IF e.ev = "reset" THEN top' = 0 /\ UNCHANGED <<viol, cnt>>
       ELSE LET ps == Preds(e) IN
            /\ viol' = Merge(viol, Failures(ps, e, pos))
            /\ cnt'  = Count(cnt, ps)
            /\ top'  = IF e.ev = "store" /\ Rank(e.to) > top THEN Rank(e.to) ELSE top
  /\ pos' = pos + 1

Done == pos = Len(Trace) + 1 /\ UNCHANGED <<pos, viol, cnt, top>>
Next == Step \/ Done
Rep  == Report(pos, viol, cnt)
=============================================================================
