------------------------------ MODULE CodecOps ------------------------------
(* Codec descriptors, codec compatibility and remote-description codec      *)
(* negotiation of pion/webrtc (properties C17 and C15).                      *)
(*                                                                          *)
(* Part 1  strings as Go sees them (ToLower, EqualFold, Split, TrimSpace,    *)
(*         hex) -- TLC strings support Len, SubSeq and \o.                   *)
(* Part 2  internal/fmtp transcribed: parseParameters, Parse, the four       *)
(*         Match implementations, ClockRateEqual, ChannelsEqual.             *)
(* Part 3  rtpcodec.go / mediaengine.go transcribed: FuzzySearch,            *)
(*         MatchRemoteCodec (apt rewriting), the two passes, push, lookup.   *)
(* Part 4  NORMATIVE operators (the oracle): C17 Symmetric/CaseInsensitive   *)
(*         on recorded result codes, C15 NegotiatedOK and its conjuncts.     *)
(*                                                                          *)
(* Parts 2 and 3 are implementation-shaped (generative); a disagreement      *)
(* between them and pion is model drift, never a violation.  Part 4 uses     *)
(* Match / PartialMatch only as the *definition* of "matches exactly /       *)
(* partially", in the weakest reading (see NegotiatedOK).                    *)
EXTENDS Naturals, Sequences, FiniteSets, TLC, SequencesExt

CONSTANT Impl    \* how defaultClockRate / defaultChannels key their table of defaults:
                 \* "intended": with the same folding as the mime comparison (strings.EqualFold) -- this is
                 \*     what internal/fmtp does since the repair "fmtp default clock rate and channels use
                 \*     the same case folding as the mime comparison"; it is the variant every prediction
                 \*     (emitted result codes, drift comparison, C15 model) is made with;
                 \* "asis": by strings.ToLower(mime) while mimes are compared with strings.EqualFold -- the
                 \*     code as it was pinned, before that repair; kept only so that TLC exhibits the
                 \*     counterexample to symmetry that was found with it (CodecMatch_asis.cfg).

-----------------------------------------------------------------------------
(* Part 1: strings *)

Ch(s, i) == SubSeq(s, i, i)
UpperAZ  == "ABCDEFGHIJKLMNOPQRSTUVWXYZ"
LowerAZ  == "abcdefghijklmnopqrstuvwxyz"
LowTab   == [c \in {Ch(UpperAZ, i) : i \in 1..26} |-> Ch(LowerAZ, CHOOSE i \in 1..26 : Ch(UpperAZ, i) = c)]
UpTab    == [c \in {Ch(LowerAZ, i) : i \in 1..26} |-> Ch(UpperAZ, CHOOSE i \in 1..26 : Ch(LowerAZ, i) = c)]

\* "$" stands for U+017F LATIN SMALL LETTER LONG S (SANY strings are ASCII; the Go drivers
\* substitute it).  Go: unicode.ToLower(U+017F) = U+017F, but strings.EqualFold("s", U+017F) = true
\* (the one place where ToLower-keyed defaults and EqualFold comparison disagreed, see Impl).
LongS == "$"

LowerC(c) == IF c \in DOMAIN LowTab THEN LowTab[c] ELSE c           \* strings.ToLower
UpperC(c) == IF c \in DOMAIN UpTab THEN UpTab[c] ELSE c             \* ASCII upper (LongS kept)
FoldC(c)  == IF c = LongS THEN "s" ELSE LowerC(c)                   \* canonical member of the EqualFold orbit
SwapC(c)  == IF c \in DOMAIN LowTab THEN LowTab[c] ELSE IF c \in DOMAIN UpTab THEN UpTab[c] ELSE c

ConvC(mode, c) == CASE mode = "lower" -> LowerC(c) [] mode = "upper" -> UpperC(c)
                    [] mode = "fold" -> FoldC(c)   [] mode = "swap"  -> SwapC(c)
RECURSIVE ConvFrom(_, _, _)
ConvFrom(mode, s, i) == IF i > Len(s) THEN "" ELSE ConvC(mode, Ch(s, i)) \o ConvFrom(mode, s, i + 1)
LowerStr(s) == ConvFrom("lower", s, 1)
FoldStr(s)  == ConvFrom("fold", s, 1)
SwapCase(s) == ConvFrom("swap", s, 1)     \* every ASCII letter changes case
EqualFold(s, t) == FoldStr(s) = FoldStr(t)

\* Min, Max: FiniteSetsExt (via SequencesExt)

\* Scanning works on the tuple of characters of a string (TLC's SubSeq on strings is slow, tuple
\* indexing is not); pieces are cut out of the original string with one SubSeq each.
\* TLC keeps [x \in S |-> e] unevaluated and re-evaluates e at every application: \o <<>> forces a
\* tuple, @@ NoFcn a tabulated function.
Force(f) == f \o <<>>
NoFcn    == [x \in {} |-> 0]
Chars(s) == Force([i \in 1..Len(s) |-> SubSeq(s, i, i)])
RECURSIVE Find(_, _, _, _)     \* least i in from..to with cs[i] = c, else to + 1
Find(cs, c, from, to) == IF from > to THEN to + 1 ELSE IF cs[from] = c THEN from ELSE Find(cs, c, from + 1, to)
RECURSIVE SkipL(_, _, _)       \* least i in from..to with cs[i] # " ", else to + 1
SkipL(cs, from, to) == IF from > to THEN to + 1 ELSE IF cs[from] # " " THEN from ELSE SkipL(cs, from + 1, to)
RECURSIVE SkipR(_, _, _)       \* greatest i in from..to with cs[i] # " ", else from - 1
SkipR(cs, from, to) == IF from > to THEN from - 1 ELSE IF cs[to] # " " THEN to ELSE SkipR(cs, from, to - 1)

\* strings.Split(s, sep) for a one-character separator, as index ranges [lo, hi] (hi = lo - 1: empty)
RECURSIVE Ranges(_, _, _)
RangesAt(cs, sep, from, e) ==
  IF e > Len(cs) THEN << [lo |-> from, hi |-> Len(cs)] >>
  ELSE << [lo |-> from, hi |-> e - 1] >> \o Ranges(cs, sep, e + 1)
Ranges(cs, sep, from) == RangesAt(cs, sep, from, Find(cs, sep, from, Len(cs)))
SplitRanges(s, r) == Force([i \in 1..Len(r) |-> SubSeq(s, r[i].lo, r[i].hi)])
Split(s, sep) == SplitRanges(s, Ranges(Chars(s), sep, 1))

TrimChars(s, cs) == SubSeq(s, SkipL(cs, 1, Len(s)), SkipR(cs, 1, Len(s)))
TrimSpace(s) == TrimChars(s, Chars(s))

\* strings.SplitN(strings.TrimSpace(piece), "=", 2) for the piece s[lo..hi]: key and value
\* ("" when there is no "=")
KeyValueAt(s, cs, l, h, e) ==
  IF l > h THEN [k |-> "", v |-> ""]
  ELSE IF e > h THEN [k |-> SubSeq(s, l, h), v |-> ""]
  ELSE [k |-> SubSeq(s, l, e - 1), v |-> SubSeq(s, e + 1, h)]
KeyValueTrimmed(s, cs, l, h) == KeyValueAt(s, cs, l, h, Find(cs, "=", l, h))
KeyValueIn(s, cs, lo, hi)    == KeyValueTrimmed(s, cs, SkipL(cs, lo, hi), SkipR(cs, lo, hi))

HexSet == {Ch("0123456789abcdef", i) : i \in 1..16}
\* hex.DecodeString(v) succeeded with >= 2 bytes: the first two bytes as 4 lower-case digits, else "bad"
PlidKey(v) ==
  IF Len(v) % 2 = 0 /\ Len(v) >= 4 /\ \A i \in 1..Len(v) : LowerC(Ch(v, i)) \in HexSet
  THEN LowerStr(SubSeq(v, 1, 4)) ELSE "bad"

IsUint(s) == Len(s) > 0 /\ \A i \in 1..Len(s) : Ch(s, i) \in {Ch("0123456789", k) : k \in 1..10}
RECURSIVE UintFrom(_, _, _)
UintFrom(s, i, acc) == IF i > Len(s) \/ acc > 100000 THEN acc
                       ELSE UintFrom(s, i + 1, acc * 10 + ((CHOOSE k \in 1..10 : Ch("0123456789", k) = Ch(s, i)) - 1))
Uint(s) == UintFrom(s, 1, 0)          \* only for IsUint(s); saturates above 100000

-----------------------------------------------------------------------------
(* Part 2: internal/fmtp *)

\* fmtp.go parseParameters: split on ";", trim each piece, split at the first "=", lower-case the
\* key, keep the value as it is; a later duplicate key overwrites an earlier one.
PPFromKvs(kvs) ==
  [k \in {kvs[i].k : i \in 1..Len(kvs)} |-> kvs[Max({i \in 1..Len(kvs) : kvs[i].k = k})].v] @@ NoFcn
PPFromRanges(line, cs, rs) ==
  PPFromKvs(Force([i \in 1..Len(rs) |->
     LET r == KeyValueIn(line, cs, rs[i].lo, rs[i].hi) IN [k |-> LowerStr(r.k), v |-> r.v]]))
PPFromChars(line, cs) == PPFromRanges(line, cs, Ranges(cs, ";", 1))
ParseParameters(line) == PPFromChars(line, Chars(line))

\* fmtp.Parse: the parsed form P of a descriptor, assembled from the part that depends on the mime
\* type only and the part that depends on the fmtp line only (so that callers can tabulate both).
\* kind = which Match implementation is selected (by EqualFold on the mime type); mf = the mime
\* type up to EqualFold; ml = strings.ToLower(mime); p = parameters with raw values; pf = values
\* up to EqualFold (paramsEqual); plid = profile-level-id key (h264.go profileLevelIDMatches).
MimeFrom(mf, ml) ==
  [kind |-> CASE mf = "video/h264" -> "h264" [] mf = "video/vp9" -> "vp9"
              [] mf = "video/av1" -> "av1" [] OTHER -> "generic", mf |-> mf, ml |-> ml]
ParseMime(mime) == MimeFrom(FoldStr(mime), LowerStr(mime))
LineFrom(ps) ==
  [p    |-> ps,
   pf   |-> [k \in DOMAIN ps |-> FoldStr(ps[k])] @@ NoFcn,
   plid |-> IF "profile-level-id" \in DOMAIN ps THEN PlidKey(ps["profile-level-id"]) ELSE "none"]
ParseLine(line) == LineFrom(ParseParameters(line))
Assemble(M, clock, ch, L) ==
  [kind |-> M.kind, mf |-> M.mf, ml |-> M.ml, clock |-> clock, ch |-> ch, p |-> L.p, pf |-> L.pf, plid |-> L.plid]
Parse(mime, clock, ch, line) == Assemble(ParseMime(mime), clock, ch, ParseLine(line))
\* The same with a cache: a record [lines, mimes] of two functions, fmtp line -> ParseLine(line) and
\* mime type -> ParseMime(mime), for some lines / mime types.  Pure optimisation (parsing a string is
\* slow in TLC); a string that is not in the domain is parsed.
EmptyCache == [lines |-> NoFcn, mimes |-> NoFcn]
ParseLineC(cache, line) == IF line \in DOMAIN cache.lines THEN cache.lines[line] ELSE ParseLine(line)
ParseMimeC(cache, mime) == IF mime \in DOMAIN cache.mimes THEN cache.mimes[mime] ELSE ParseMime(mime)
ParseC(cache, mime, clock, ch, line) == Assemble(ParseMimeC(cache, mime), clock, ch, ParseLineC(cache, line))

DefKey(P) == IF Impl = "asis" THEN P.ml ELSE P.mf      \* current code: P.mf (EqualFold against the table)
DefaultClock(P)    == CASE DefKey(P) = "audio/opus" -> 48000
                        [] DefKey(P) \in {"audio/pcmu", "audio/pcma"} -> 8000 [] OTHER -> 90000
DefaultChannels(P) == IF DefKey(P) = "audio/opus" THEN 2 ELSE 0

\* ClockRateEqual(mime, a, b) / ChannelsEqual(mime, a, b); P supplies the mime type
ClockRateEqual(P, a, b) == (IF a = 0 THEN DefaultClock(P) ELSE a) = (IF b = 0 THEN DefaultClock(P) ELSE b)
ChannelsEqual(P, a, b) ==
  LET d(x) == LET y == IF x = 0 THEN DefaultChannels(P) ELSE x IN IF y = 0 THEN 1 ELSE y
  IN d(a) = d(b)

ParamsEqual(pa, pb) == \A k \in (DOMAIN pa) \cap (DOMAIN pb) : pa[k] = pb[k]     \* on folded values
ParamOr(P, key, def) == IF key \in DOMAIN P.p THEN P.p[key] ELSE def

\* A.Match(B) for parsed descriptors: h264.go, vp9.go, av1.go, fmtp.go (generic)
MatchP(A, B) ==
  CASE A.kind = "h264" ->
         /\ B.kind = "h264"
         /\ "packetization-mode" \in DOMAIN A.p /\ "packetization-mode" \in DOMAIN B.p
         /\ A.p["packetization-mode"] = B.p["packetization-mode"]
         /\ A.plid \notin {"none", "bad"} /\ B.plid \notin {"none", "bad"} /\ A.plid = B.plid
    [] A.kind = "vp9" -> B.kind = "vp9" /\ ParamOr(A, "profile-id", "0") = ParamOr(B, "profile-id", "0")
    [] A.kind = "av1" -> B.kind = "av1" /\ ParamOr(A, "profile", "0") = ParamOr(B, "profile", "0")
    [] OTHER ->
         /\ B.kind = "generic" /\ A.mf = B.mf
         /\ ClockRateEqual(A, A.clock, B.clock) /\ ChannelsEqual(A, A.ch, B.ch)
         /\ ParamsEqual(A.pf, B.pf)

\* the "fallback" comparison of codecParametersFuzzySearch: mime, clock, channels (H = haystack codec)
PartialP(H, N) == H.mf = N.mf /\ ClockRateEqual(H, H.clock, N.clock) /\ ChannelsEqual(H, H.ch, N.ch)

\* Codec descriptors are records with at least mime, clock, ch, line; a *prepared* descriptor also
\* carries its parsed form P (so that it is parsed once).
\* (a record constructor is evaluated at once and @@ tabulates; a function constructor would
\* re-parse at every access to .P)
PrepC(cache, c) == [P |-> ParseC(cache, c.mime, c.clock, c.ch, c.line)] @@ c
Prep(c)  == PrepC(EmptyCache, c)
Match(a, b)        == MatchP(a.P, b.P)          \* fmtp.Parse(a).Match(fmtp.Parse(b))
PartialMatch(h, n) == PartialP(h.P, n.P)

-----------------------------------------------------------------------------
(* Part 3: rtpcodec.go, mediaengine.go.  A codec = prepared descriptor + pt (payload type) + fb  *)
(* (sequence of feedback strings "type" or "type parameter").                                    *)

NoCodec == [none |-> TRUE]
SeqSet(s) == {s[i] : i \in 1..Len(s)}

\* codecParametersFuzzySearch(needle, haystack)
FuzzySearch(needle, hay) ==
  LET ex == {i \in 1..Len(hay) : Match(needle, hay[i])}
      pa == {i \in 1..Len(hay) : PartialMatch(hay[i], needle)}
  IN IF ex # {} THEN [c |-> hay[Min(ex)], t |-> "exact"]
     ELSE IF pa # {} THEN [c |-> hay[Min(pa)], t |-> "partial"]
     ELSE [c |-> NoCodec, t |-> "none"]

\* rtcpFeedbackIntersection(a, b): elements of a that occur in b, in a's order
FbIntersect(a, b) == SelectSeq(a, LAMBDA x : x \in SeqSet(b))

\* MediaEngine.addCodec (RegisterCodec, pushCodecs): [list, err]
AddCodec(list, c) ==
  LET same == {i \in 1..Len(list) : list[i].pt = c.pt} IN
  IF same = {} THEN [list |-> Append(list, c), err |-> FALSE]
  ELSE LET o == list[Min(same)] IN
       [list |-> list,
        err  |-> ~(o.P.mf = c.P.mf /\ ClockRateEqual(o.P, o.clock, c.clock) /\ ChannelsEqual(o.P, o.ch, c.ch))]

RECURSIVE RegisterAll(_, _)
RegisterAll(list, cs) == IF cs = <<>> THEN list ELSE RegisterAll(AddCodec(list, Head(cs)).list, Tail(cs))

FirstWithPt(list, pt) == LET s == {i \in 1..Len(list) : list[i].pt = pt} IN
                         IF s = {} THEN NoCodec ELSE list[Min(s)]
AddIfNew(list, c) == IF \E i \in 1..Len(list) : list[i].pt = c.pt THEN list ELSE Append(list, c)

\* MediaEngine.matchRemoteCodec(remoteCodec, typ, exactMatches, partialMatches) -> [c, t, err]
MatchRemoteCodec(cache, rc, local, exact, partial) ==
  IF "apt" \in DOMAIN rc.P.p
  THEN LET apt == rc.P.p["apt"] IN
       IF ~IsUint(apt) \/ Uint(apt) > 255 THEN [c |-> NoCodec, t |-> "none", err |-> TRUE]   \* strconv.ParseUint(apt, 10, 8)
       ELSE
       LET pt  == Uint(apt)
           e   == FirstWithPt(exact, pt)
           p   == FirstWithPt(partial, pt)
           aptMatch == IF e # NoCodec THEN "exact" ELSE IF p # NoCodec THEN "partial" ELSE "none"
           aptCodec == IF e # NoCodec THEN e ELSE p
       IN IF aptMatch = "none" THEN [c |-> NoCodec, t |-> "none", err |-> FALSE]
          ELSE LET am == FuzzySearch(aptCodec, local)
                   \* replace the apt value with the local payload type of the primary codec
                   line2 == IF am.t = aptMatch
                            THEN ReplaceFirstSubSeq("apt=" \o ToString(am.c.pt), "apt=" \o ToString(pt), rc.line)
                            ELSE rc.line
                   toMatch == IF line2 = rc.line THEN rc ELSE PrepC(cache, [rc EXCEPT !.line = line2])
                   r == FuzzySearch(toMatch, local)
               IN [c |-> r.c,
                   t |-> IF r.t = "exact" /\ aptMatch = "partial" THEN "partial" ELSE r.t,
                   err |-> FALSE]
  ELSE LET r == FuzzySearch(rc, local) IN [c |-> r.c, t |-> r.t, err |-> FALSE]

\* one pass of updateFromRemoteDescription over the remote codecs of one media section
RECURSIVE Pass(_, _, _, _)
Pass(cache, rem, local, acc) ==     \* acc = [exact, partial, err]
  IF rem = <<>> \/ acc.err THEN acc
  ELSE LET rc == Head(rem)
           m  == MatchRemoteCodec(cache, rc, local, acc.exact, acc.partial)
           nc == IF m.t = "none" THEN rc ELSE [rc EXCEPT !.fb = FbIntersect(m.c.fb, rc.fb)]
       IN Pass(cache, Tail(rem), local,
               [exact   |-> IF m.t = "exact" THEN AddIfNew(acc.exact, nc) ELSE acc.exact,
                partial |-> IF m.t = "partial" THEN AddIfNew(acc.partial, nc) ELSE acc.partial,
                err     |-> m.err])

RECURSIVE PushAll(_, _)
PushAll(list, cs) == IF cs = <<>> THEN [list |-> list, err |-> FALSE]
                     ELSE LET a == AddCodec(list, Head(cs))
                              r == PushAll(a.list, Tail(cs))
                          IN [list |-> r.list, err |-> a.err \/ r.err]

\* Negotiation of one media section of a kind not negotiated before:
\* [neg |-> negotiated codecs of that kind, err |-> updateFromRemoteDescription returned an error]
NegotiateSection(cache, local, remote) ==
  LET p1 == Pass(cache, remote, local, [exact |-> <<>>, partial |-> <<>>, err |-> FALSE])
      p2 == Pass(cache, remote, local, p1)          \* second pass in case there were missed RTX codecs
  IN IF p2.err THEN [neg |-> <<>>, err |-> TRUE]
     ELSE LET chosen == IF p2.exact # <<>> THEN p2.exact ELSE p2.partial
              pu == PushAll(<<>>, chosen)
          IN [neg |-> pu.list, err |-> pu.err]

\* getCodecByPayload after negotiation. kinds = sequence of records
\* [kind, present (the remote description had a section of that kind), neg, local], video first.
Lookup(kinds, pt) ==
  LET hitN == {i \in 1..Len(kinds) : kinds[i].present /\ FirstWithPt(kinds[i].neg, pt) # NoCodec}
      hitL == {i \in 1..Len(kinds) : ~kinds[i].present /\ FirstWithPt(kinds[i].local, pt) # NoCodec}
  IN IF hitN # {} THEN [found |-> TRUE, kind |-> kinds[Min(hitN)].kind, c |-> FirstWithPt(kinds[Min(hitN)].neg, pt)]
     ELSE IF hitL # {} THEN [found |-> TRUE, kind |-> kinds[Min(hitL)].kind, c |-> FirstWithPt(kinds[Min(hitL)].local, pt)]
     ELSE [found |-> FALSE, kind |-> "none", c |-> NoCodec]

-----------------------------------------------------------------------------
(* Part 4: NORMATIVE operators *)

\* ---- C17.  What is recorded for an (unordered) pair of descriptors a, b is a result code: the
\* eight booleans  a.Match(b), b.Match(a), a^.Match(b), b.Match(a^), a.Match(b^), b^.Match(a),
\* a^.Match(b^), b^.Match(a^)  as bits 0..7, x^ being x with the case of every ASCII letter of its
\* mime type changed.
Bit(code, k) == (code \div (2 ^ k)) % 2
\* "A matches B exactly when B matches A" for the four pairs of descriptions the code covers
SymmetricCode(c) == /\ Bit(c, 0) = Bit(c, 1) /\ Bit(c, 2) = Bit(c, 3)
                    /\ Bit(c, 4) = Bit(c, 5) /\ Bit(c, 6) = Bit(c, 7)
\* "the result doesn't change when the mime type's letter case changes" (either side, both orders)
CaseInsensitiveCode(c) == /\ Bit(c, 0) = Bit(c, 2) /\ Bit(c, 0) = Bit(c, 4) /\ Bit(c, 0) = Bit(c, 6)
                          /\ Bit(c, 1) = Bit(c, 3) /\ Bit(c, 1) = Bit(c, 5) /\ Bit(c, 1) = Bit(c, 7)
SymmetricCodes       == {c \in 0..255 : SymmetricCode(c)}
CaseInsensitiveCodes == {c \in 0..255 : CaseInsensitiveCode(c)}

\* the code the transcription of Part 2 predicts, from parsed forms (A, As = a and a^; B, Bs)
B2N(b) == IF b THEN 1 ELSE 0
CodeOf(A, As, B, Bs) ==
    B2N(MatchP(A, B))        + 2 * B2N(MatchP(B, A))   + 4 * B2N(MatchP(As, B))   + 8 * B2N(MatchP(B, As))
  + 16 * B2N(MatchP(A, Bs)) + 32 * B2N(MatchP(Bs, A)) + 64 * B2N(MatchP(As, Bs)) + 128 * B2N(MatchP(Bs, As))

\* ---- C15.  local, remote: sequences of codecs of ONE kind (registered locally / offered by the
\* remote in the applied description); neg: the codecs of that kind in use afterwards.
\* All comparisons are the weakest reading of the property text:

\* "c was offered by the remote": some offered codec has the same mime type (case-insensitively),
\* clock rate and channels (with the defaults) and either the same fmtp line or a compatible one.
SameCodec(c, r)  == PartialMatch(r, c) /\ PartialMatch(c, r) /\ (c.line = r.line \/ Match(c, r) \/ Match(r, c))
OfferedByRemote(c, remote) == \E i \in 1..Len(remote) : SameCodec(c, remote[i])
\* "the remote's payload type is used": ... and that offered codec has c's payload type
RemotePayloadType(c, remote) == \E i \in 1..Len(remote) : remote[i].pt = c.pt /\ SameCodec(c, remote[i])
\* "matched (exactly or partially) by a locally registered codec"
MatchedBy(c, l)  == Match(c, l) \/ Match(l, c) \/ PartialMatch(l, c) \/ PartialMatch(c, l)
MatchesLocal(c, local) == \E i \in 1..Len(local) : MatchedBy(c, local[i])
\* "exact matches are preferred over partial ones": if some offered codec that does not refer to
\* another payload type (no apt parameter) matches a local codec exactly, no codec in use is a merely
\* partial match.  A codec in use WITHOUT apt must then match some local codec exactly.  A codec in
\* use WITH apt=N (an RTX codec) is an exact match in the weakest reading of what pion's apt handling
\* means: either it matches some local codec exactly as it stands, or the offered codec with payload
\* type N matches some local codec l exactly and, with its apt value replaced by l's payload type, it
\* matches some local codec exactly (an RTX entry for l is registered locally).
HasApt(c)        == "apt" \in DOMAIN c.P.p
ExactLocal(c, local) == \E i \in 1..Len(local) : Match(c, local[i])
WithApt(c, v)    == [c EXCEPT !.P.p["apt"] = v, !.P.pf["apt"] = v]
ExactApt(c, local, remote) ==
  \/ ExactLocal(c, local)
  \/ /\ IsUint(c.P.p["apt"])
     /\ \E i \in 1..Len(remote), j \in 1..Len(local) :
          /\ remote[i].pt = Uint(c.P.p["apt"])
          /\ (Match(remote[i], local[j]) \/ Match(local[j], remote[i]))
          /\ ExactLocal(WithApt(c, ToString(local[j].pt)), local)
ExactOffered(local, remote) == {i \in 1..Len(remote) : ~HasApt(remote[i]) /\ ExactLocal(remote[i], local)}
ExactPreferred(local, remote, neg) ==
  ExactOffered(local, remote) # {} =>
     \A i \in 1..Len(neg) : IF HasApt(neg[i]) THEN ExactApt(neg[i], local, remote) ELSE ExactLocal(neg[i], local)
\* "RTCP feedback is the intersection of both sides": the feedback of a codec in use is, as a set,
\* the intersection of the feedback of the offered codec with that payload type and of some local
\* codec that matches it
FeedbackIsIntersection(c, local, remote) ==
  \E i \in 1..Len(remote), j \in 1..Len(local) :
     /\ remote[i].pt = c.pt /\ SameCodec(c, remote[i]) /\ MatchedBy(c, local[j])
     /\ SeqSet(c.fb) = SeqSet(remote[i].fb) \cap SeqSet(local[j].fb)

NegotiatedOK(local, remote, neg) ==
  /\ \A i \in 1..Len(neg) : /\ OfferedByRemote(neg[i], remote) /\ RemotePayloadType(neg[i], remote)
                            /\ MatchesLocal(neg[i], local) /\ FeedbackIsIntersection(neg[i], local, remote)
  /\ ExactPreferred(local, remote, neg)

\* "an incoming packet's payload type is resolved against the negotiated set before the locally
\* registered set": when a codec in use (of any kind the description covered) has payload type pt,
\* the lookup of pt finds a codec in use with that payload type, not a merely registered one.
\* negAll: all codecs in use (any kind); res: [found, c] as recorded.
SameEntry(x, y) == x.pt = y.pt /\ x.mime = y.mime /\ x.clock = y.clock /\ x.ch = y.ch /\ x.line = y.line
NegotiatedBeforeLocalLookup(negAll, pt, res) ==
  (\E i \in 1..Len(negAll) : negAll[i].pt = pt) =>
      res.found /\ \E i \in 1..Len(negAll) : negAll[i].pt = pt /\ SameEntry(negAll[i], res.c)
=============================================================================
