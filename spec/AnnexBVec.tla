------------------------------ MODULE AnnexBVec ------------------------------
(* C34: bounded exhaustive check of the transcribed reader (AnnexBReader) on *)
(* every framed stream of at most MaxNals units of at most MaxNalLen symbols, *)
(* both start-code widths per unit, SEI inclusion on and off -- and emission *)
(* of those streams as vectors that are expanded to real bytes and replayed  *)
(* through the real H.264 / H.265 readers.                                   *)
EXTENDS AnnexBOps, AnnexBReader, TLC, Json, Randomization

CONSTANTS MaxNals,     \* units per stream
          MaxNalLen,   \* symbols per unit
          HdrSyms,     \* symbols allowed as first header byte
          BodySyms,    \* symbols allowed after the first byte
          Sample,      \* 0: every stream; n > 0: streams built from n random units per position
          Emit         \* TRUE: print every stream as VERIF_VEC

VARIABLES vec,         \* sequence of units [sy |-> symbols, w |-> 3 | 4]
          outs         \* what the transcribed reader returns for it: outs[inclusion][impl]

Cands == UNION { [1..k -> HdrSyms \cup BodySyms] : k \in 1..MaxNalLen }
ValidNals == { n \in Cands : /\ n[1] \in HdrSyms
                             /\ \A i \in 2..Len(n) : n[i] \in BodySyms
                             /\ ValidNal(n, "Z", "O") }
Units == [sy : ValidNals, w : {3, 4}]
Pick  == IF Sample = 0 THEN Units ELSE RandomSubset(Sample, Units)
Space == UNION { [1..k -> Pick] : k \in 1..MaxNals }

RECURSIVE Framed(_)
Framed(v) == IF v = <<>> THEN <<>>
             ELSE StartCode(Head(v).w, "Z", "O") \o Head(v).sy \o Framed(Tail(v))

Nals(v)  == [i \in 1..Len(v) |-> v[i].sy]
Sei(n)   == n[1] = "S"
Impls    == {"current", "pinned"}

Init == /\ vec \in Space
        /\ outs = [inc \in BOOLEAN |-> [impl \in Impls |-> Run(Framed(vec), inc, impl)]]
Next == UNCHANGED <<vec, outs>>

\* ---- what TLC checks on the model -------------------------------------------------------
\* the code as it is returns exactly the framed units, SEI skipped when inclusion is off
CurrentExact ==
  \A inc \in BOOLEAN : Returned(outs[inc]["current"], Nals(vec), Sei, inc)
\* the two conjuncts used on recorded traces are together the same as "exactly"
SplitIsExact ==
  \A inc \in BOOLEAN : \A impl \in Impls :
     LET out == outs[inc][impl] IN
     (ExactNals(out, Nals(vec), Sei, inc) /\ SeiSkipped(out, Sei, inc)) = Returned(out, Nals(vec), Sei, inc)
\* ---- the pinned code (before 7b855c6), documented counterexample only
\* with inclusion ON it returned exactly the framed units too
PinnedExactWhenIncluded == Returned(outs[TRUE]["pinned"], Nals(vec), Sei, TRUE)
\* with inclusion OFF it was exact if and only if the last unit is not SEI, and then the only
\* error was that this last SEI unit is returned
PinnedCharacterised ==
  LET out  == outs[FALSE]["pinned"]
      last == vec[Len(vec)].sy
  IN  IF Sei(last) THEN out = Append(Filter(Nals(vec), Sei, FALSE), last)
                   ELSE Returned(out, Nals(vec), Sei, FALSE)
\* the property as it is stated, for the pinned code (expected to FAIL: AnnexBVec_pinned.cfg)
PinnedExact ==
  \A inc \in BOOLEAN : Returned(outs[inc]["pinned"], Nals(vec), Sei, inc)

\* ---- emission ---------------------------------------------------------------------------
\* curOff / curOn: what the code as it is returns (model prediction, compared with pion as drift)
EmitVec == Emit => PrintT(<<"VERIF_VEC", ToJson([units |-> vec,
                                                 curOff |-> outs[FALSE]["current"],
                                                 curOn  |-> outs[TRUE]["current"]])>>)
=============================================================================
