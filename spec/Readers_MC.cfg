CONSTANTS
  Impl = "intended"
  Space = "quick"
INIT Init
NEXT Next
INVARIANTS ModelNoPanic ModelProgress ModelTerminates ModelInsideInput ModelBasesValid
CHECK_DEADLOCK FALSE
