------------------------------- MODULE AnnexB -------------------------------
(* C34, generative model: the Annex-B reader (AnnexBReader: NextNAL,         *)
(* processByte, prefix detection, SEI filter, end-of-stream path) together   *)
(* with its read() helper, running against a source that produces ANY valid  *)
(* framed stream -- any number of units, each of 1..MaxNalLen symbols without *)
(* emulated start code and without trailing zero, 3- or 4-byte start codes -- *)
(* and delivers it in chunks of any sizes 1..MaxChunk.                       *)
(*                                                                           *)
(* The property is checked online: every unit the source completes is put    *)
(* (unless SEI with inclusion off) in the queue `exp`; every unit NextNAL    *)
(* returns must be the head of that queue, and when NextNAL reports io.EOF   *)
(* the queue must be empty.  No history is kept, so the state space is       *)
(* finite although the number of units is unbounded.                         *)
EXTENDS AnnexBOps, AnnexBReader, TLC

CONSTANTS Impl,        \* "current" | "pinned" : end-of-stream path of NextNAL (AnnexBReader!AtEnd);
                       \* "current" is the code as it is, "pinned" the code before the repair 7b855c6
          ReadImpl,    \* "asis": read() as it is: the bytes stream.Read returns together with an error are dropped
                       \* "intended": bytes returned with the error are kept (io.Reader contract)
          EofWithData, \* TRUE: the source may hand out its final chunk together with io.EOF (outside the
                       \* delivery C34 assumes; with ReadImpl = "asis" TLC shows the loss: AnnexB_asis_eof.cfg)
          MaxNalLen, MaxChunk, HdrSyms, BodySyms

VARIABLES inc,         \* SEI inclusion (chosen once)
          gcur,        \* source: symbols of the unit it is in the middle of
          gsc,         \* source: rest of the start code it is in the middle of
          gend,        \* source: nothing more to hand out
          pipe,        \* the chunk the next stream.Read call will return
          rbuf,        \* reader.readBuffer
          rd,          \* reader state (nalBuffer, countOfConsecutiveZeroBytes, nalPrefixParsed)
          eof,         \* stream.Read has returned an error
          exp,         \* units framed (and not filtered) that NextNAL has not returned yet
          bad,         \* the observer saw NextNAL return something else than the head of exp
          done         \* NextNAL has reported io.EOF / an error

vars == <<inc, gcur, gsc, gend, pipe, rbuf, rd, eof, exp, bad, done>>

Sei(n) == n[1] = "S"
Keep(n) == inc \/ ~Sei(n)

Init == /\ inc \in BOOLEAN
        /\ gcur = <<>> /\ gsc \in {StartCode(3, "Z", "O"), StartCode(4, "Z", "O")} /\ gend = FALSE
        /\ pipe = <<>> /\ rbuf = <<>> /\ rd = NewReader /\ eof = FALSE
        /\ exp = <<>> /\ bad = FALSE /\ done = FALSE

\* number of bytes the reader is waiting for: read(4) for the prefix, read(1) in the loop
Need == IF rd.pp THEN 1 ELSE 4
Blocked == ~done /\ Len(rbuf) < Need        \* read() has to call stream.Read

Complete(n) == ValidNal(n, "Z", "O")

\* ---- the source, one symbol at a time into the chunk being assembled ----------------------
SrcStartCode ==        \* next symbol of the start code
  /\ gsc # <<>>
  /\ pipe' = Append(pipe, Head(gsc)) /\ gsc' = Tail(gsc)
  /\ UNCHANGED <<gcur, gend, exp>>

SrcExtend ==           \* next symbol of the current unit
  /\ gsc = <<>> /\ Len(gcur) < MaxNalLen
  /\ \E s \in (IF gcur = <<>> THEN HdrSyms ELSE BodySyms) :
        /\ NoStartCode(Append(gcur, s), "Z", "O")
        /\ (Len(gcur) + 1 = MaxNalLen) => s # "Z"          \* the unit can still be completed
        /\ gcur' = Append(gcur, s) /\ pipe' = Append(pipe, s)
  /\ UNCHANGED <<gsc, gend, exp>>

SrcNextUnit ==         \* the current unit is complete; first symbol of the next start code
  /\ gsc = <<>> /\ Complete(gcur)
  /\ \E w \in {3, 4} : gsc' = Tail(StartCode(w, "Z", "O"))
  /\ pipe' = Append(pipe, "Z")
  /\ exp' = IF Keep(gcur) THEN Append(exp, gcur) ELSE exp
  /\ gcur' = <<>> /\ UNCHANGED gend

SrcFinish ==           \* the current unit is complete and is the last one
  /\ gsc = <<>> /\ Complete(gcur)
  /\ gend' = TRUE /\ gcur' = <<>>
  /\ exp' = IF Keep(gcur) THEN Append(exp, gcur) ELSE exp
  /\ UNCHANGED <<gsc, pipe>>

Fill == /\ Blocked /\ ~eof /\ ~gend /\ Len(pipe) < MaxChunk
        /\ (SrcStartCode \/ SrcExtend \/ SrcNextUnit \/ SrcFinish)
        /\ UNCHANGED <<inc, rbuf, rd, eof, bad, done>>

\* ---- stream.Read returns ------------------------------------------------------------------
Deliver ==             \* (n > 0, nil)
  /\ Blocked /\ ~eof /\ pipe # <<>>
  /\ rbuf' = rbuf \o pipe /\ pipe' = <<>>
  /\ UNCHANGED <<inc, gcur, gsc, gend, rd, eof, exp, bad, done>>

DeliverWithEof ==      \* (n > 0, io.EOF): the final chunk together with the error
  /\ EofWithData /\ Blocked /\ ~eof /\ pipe # <<>> /\ gend
  /\ rbuf' = IF ReadImpl = "asis" THEN rbuf ELSE rbuf \o pipe    \* `if err != nil { return nil, err }`
  /\ pipe' = <<>> /\ eof' = TRUE
  /\ UNCHANGED <<inc, gcur, gsc, gend, rd, exp, bad, done>>

ReadEof ==             \* (0, io.EOF)
  /\ Blocked /\ ~eof /\ pipe = <<>> /\ gend
  /\ eof' = TRUE
  /\ UNCHANGED <<inc, gcur, gsc, gend, pipe, rbuf, rd, exp, bad, done>>

\* ---- the reader ---------------------------------------------------------------------------
Observe(kind, ret) ==  \* what the caller of NextNAL sees
  CASE kind = "ret" -> IF exp # <<>> /\ Head(exp) = ret
                       THEN exp' = Tail(exp) /\ UNCHANGED <<bad, done>>
                       ELSE bad' = TRUE /\ UNCHANGED <<exp, done>>
    [] kind = "eof" -> done' = TRUE /\ bad' = (bad \/ exp # <<>>) /\ UNCHANGED exp
    [] OTHER        -> UNCHANGED <<exp, bad, done>>

ParsePrefix ==
  /\ ~done /\ ~rd.pp /\ Len(rbuf) >= 4
  /\ LET p == Prefix(rd, SubSeq(rbuf, 1, 4)) IN
       /\ rd' = p.r /\ rbuf' = SubSeq(rbuf, 5, Len(rbuf))
       /\ Observe(IF p.ok THEN "none" ELSE "eof", <<>>)
  /\ UNCHANGED <<inc, gcur, gsc, gend, pipe, eof>>

Byte ==
  /\ ~done /\ rd.pp /\ Len(rbuf) >= 1
  /\ LET x == LoopByte(rd, Head(rbuf), inc) IN
       /\ rd' = x.r /\ rbuf' = Tail(rbuf)
       /\ Observe(x.kind, x.ret)
  /\ UNCHANGED <<inc, gcur, gsc, gend, pipe, eof>>

ReadFails ==           \* read() returned the error
  /\ Blocked /\ eof
  /\ IF ~rd.pp THEN Observe("eof", <<>>) /\ UNCHANGED rd           \* NextNAL returns the error
     ELSE LET e == AtEnd(rd, inc, Impl) IN rd' = e.r /\ Observe(e.kind, e.ret)
  /\ UNCHANGED <<inc, gcur, gsc, gend, pipe, rbuf, eof>>

Next == Fill \/ Deliver \/ DeliverWithEof \/ ReadEof \/ ParsePrefix \/ Byte \/ ReadFails

Spec == Init /\ [][Next]_vars /\ WF_vars(Deliver \/ DeliverWithEof \/ ReadEof \/ ParsePrefix \/ Byte \/ ReadFails)

\* ---- what TLC checks ------------------------------------------------------------------------
TypeOK == /\ Len(rd.nb) <= MaxNalLen + 3 /\ rd.zc \in 0..3
          /\ Len(pipe) <= MaxChunk /\ Len(rbuf) <= MaxChunk + 3 /\ Len(gcur) <= MaxNalLen
\* C34 on the model: NextNAL returns exactly the framed units (SEI skipped when inclusion is off)
Exact == ~bad
\* once the source has finished, NextNAL eventually reports io.EOF
Terminates == gend ~> done
=============================================================================
