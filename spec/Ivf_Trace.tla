----------------------------- MODULE Ivf_Trace ------------------------------
(* Trace specification for C32. One behaviour = one RTP stream written with *)
(* the real IVFWriter and read back with the real IVFReader:                *)
(*   hdr    what the writer was configured with, the header IVFReader       *)
(*          returned, the header fields found in the written bytes, the     *)
(*          number of frames found in the written bytes;                    *)
(*   frame  k-th frame: expected (assembled from the depacketised payloads  *)
(*          the driver produced), read back by IVFReader (length, hash,     *)
(*          timestamp), PTS found in the written bytes, RTP timestamps of   *)
(*          this and of the first frame as 16-bit limbs;                    *)
(*   end    counts and how the reader stopped.                              *)
(* "premise" = the stream starts with a key frame and nothing was withheld  *)
(* from the writer; frame and PTS predicates are only applied under it.     *)
EXTENDS IvfOps, TraceKit

VARIABLES l, viol, cnt

Clock == 90000

TsRec(h, lo) == [h |-> h, l |-> lo]

Preds(e) ==
  IF e.ev = "hdr" THEN {
     P("C32", "HeaderReadable", TRUE, e.rd.ok),
     P("C32", "HeaderFields", e.rd.ok, HeaderFields(e.rd, e.cfg)),
     \* the same fields at their IVF offsets in the written bytes (signature, version 0, 32-byte header)
     P("C32", "HeaderFieldsInFile", TRUE,
          e.raw.ok /\ e.raw.sig = "DKIF" /\ e.raw.version = 0 /\ e.raw.hsize = 32 /\ HeaderFields(e.raw, e.cfg)),
     P("C32", "CountWhenSeekable", e.seekable /\ e.rd.ok, CountWhenSeekable(e.seekable, e.rd.nframes, e.nfile))
  }
  ELSE IF e.ev = "frame" THEN
     LET d == Delta32(TsRec(e.tsh, e.tsl), TsRec(e.fh, e.fl)) IN {
     \* the k-th frame read back is the k-th frame assembled: same bytes, same position
     P("C32", "FrameReadBack", e.premise, e.he /\ e.hg /\ FrameSame(e.got, e.exp) /\ e.hn = e.exp.n),
     P("C32", "PtsFormula",
          e.premise /\ e.he /\ e.hf /\ DeltaFits(d) /\ PtsComputable(DeltaInt(d), Clock, e.num, e.den, e.direct),
          PtsFormula(e.pts, DeltaInt(d), Clock, e.num, e.den, e.direct)),
     P("C32", "ReaderTimestamp",
          e.hg /\ e.hf /\ e.pts >= 0 /\ ReaderTsComputable(e.pts, e.num, e.den),
          ReaderTsAgrees(e.rts, e.pts, e.num, e.den))
  }
  ELSE IF e.ev = "end" THEN {
     \* in order and nothing else: as many frames as were assembled, then a clean end of file
     P("C32", "CountReadBack", e.premise, e.ngot = e.nexp /\ e.rdend = "eof")
  }
  ELSE {}

Init == l = 1 /\ viol = {} /\ cnt = EmptyCount

Step ==
  /\ l <= Len(Trace)
  /\ LET e == Trace[l] ps == Preds(e) IN
       /\ viol' = viol \cup Failures(ps, e, l)
       /\ cnt'  = Count(cnt, ps)
  /\ l' = l + 1

Done == l = Len(Trace) + 1 /\ UNCHANGED <<l, viol, cnt>>
Next == Step \/ Done
Rep  == Report(l, viol, cnt)
=============================================================================
