\* exhaustive (thorough tier): up to 2 tracks, up to 2 packets over all ten boundary sizes and three TOC classes
CONSTANTS
  Impl = "current"
  Apis = {"New", "NewWith", "Writer", "WriterSeek"}
  MaxTracks = 2
  MaxPackets = 2
  Sizes <- SizesEdge
  MaxRandSize = 0
  MaxRandBig = 0
  TocBytes = {0, 217, 99}
  B1s = {3, 13, 0}
  Empties = TRUE
  Bufs = {"fresh"}
  ChCfgs = {"c2"}
  TagCfgs <- TagTwo
  Rates <- RatesOne
  Sample = FALSE
  Emit = FALSE
  InitSample = 0
INIT Init
NEXT Next
INVARIANTS TypeOK ModelPageShape ModelBos ModelTags ModelSeq ModelEos ModelGranule ModelPackets ModelBodies ModelEosOnlyLast ModelBosFirst
CHECK_DEADLOCK FALSE
