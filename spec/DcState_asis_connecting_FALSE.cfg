CONSTANTS
  defaultInitValue = "connecting"
  Impl = "asis"
  Start = "connecting"
  WithP = FALSE
SPECIFICATION Spec
INVARIANTS EmitInitInv 

ACTION_CONSTRAINT EmitEdge
CHECK_DEADLOCK FALSE
