-------------------------------- MODULE Origin --------------------------------
(* sdp.go updateSDPOrigin (C11): the o= line of every description one           *)
(* PeerConnection generates carries the same session id and a strictly          *)
(* increasing session version, also when CreateOffer and CreateAnswer run       *)
(* concurrently.  The function as its atomic steps, for N callers:              *)
(*   first caller : CAS(version, 0 -> v0) ; Store(id)                           *)
(*   others       : loop Load(id) until non-zero ; Add(version, 1)              *)
(* Locked = TRUE models the callers holding pc.mu around it (as CreateOffer /   *)
(* CreateAnswer do); the invariants hold with and without the lock.             *)
EXTENDS Naturals, Sequences, FiniteSets, TLC, Json

CONSTANTS Callers, Locked, V0

(* --algorithm Origin {
variables version = 0, sid = 0, mu = "free",
          clock = 0,                      \* real time: ticks at every call start / end
          calls = {},                     \* finished calls: <<caller, start, end, sid, version>>
          started = [c \in Callers |-> 0];

fair process (C \in Callers) variables myId = 0, myVer = 0, won = FALSE; {
  cStart: clock := clock + 1; started[self] := clock;
  cLock:  if (Locked) { await mu = "free"; mu := self };
  cCas:   if (version = 0) { version := V0; won := TRUE; myVer := V0; myId := 7 }    \* gate origin.enter
          else { won := FALSE };
  cStore: if (won) { sid := 7; goto cEnd };                                         \* gate origin.cas.done
  cLoad:  await sid # 0; myId := sid;                                               \* load loop
  cAdd:   version := version + 1; myVer := version;                                 \* gate origin.load.done
  cEnd:   if (Locked) { mu := "free" };
          clock := clock + 1;
          calls := calls \cup {<<self, started[self], clock, myId, myVer>>};
}
} *)
\* BEGIN TRANSLATION
VARIABLES pc, version, sid, mu, clock, calls, started, myId, myVer, won

vars == << pc, version, sid, mu, clock, calls, started, myId, myVer, won >>

ProcSet == (Callers)

Init == (* Global variables *)
        /\ version = 0
        /\ sid = 0
        /\ mu = "free"
        /\ clock = 0
        /\ calls = {}
        /\ started = [c \in Callers |-> 0]
        (* Process C *)
        /\ myId = [self \in Callers |-> 0]
        /\ myVer = [self \in Callers |-> 0]
        /\ won = [self \in Callers |-> FALSE]
        /\ pc = [self \in ProcSet |-> "cStart"]

cStart(self) == /\ pc[self] = "cStart"
                /\ clock' = clock + 1
                /\ started' = [started EXCEPT ![self] = clock']
                /\ pc' = [pc EXCEPT ![self] = "cLock"]
                /\ UNCHANGED << version, sid, mu, calls, myId, myVer, won >>

cLock(self) == /\ pc[self] = "cLock"
               /\ IF Locked
                     THEN /\ mu = "free"
                          /\ mu' = self
                     ELSE /\ TRUE
                          /\ mu' = mu
               /\ pc' = [pc EXCEPT ![self] = "cCas"]
               /\ UNCHANGED << version, sid, clock, calls, started, myId, 
                               myVer, won >>

cCas(self) == /\ pc[self] = "cCas"
              /\ IF version = 0
                    THEN /\ version' = V0
                         /\ won' = [won EXCEPT ![self] = TRUE]
                         /\ myVer' = [myVer EXCEPT ![self] = V0]
                         /\ myId' = [myId EXCEPT ![self] = 7]
                    ELSE /\ won' = [won EXCEPT ![self] = FALSE]
                         /\ UNCHANGED << version, myId, myVer >>
              /\ pc' = [pc EXCEPT ![self] = "cStore"]
              /\ UNCHANGED << sid, mu, clock, calls, started >>

cStore(self) == /\ pc[self] = "cStore"
                /\ IF won[self]
                      THEN /\ sid' = 7
                           /\ pc' = [pc EXCEPT ![self] = "cEnd"]
                      ELSE /\ pc' = [pc EXCEPT ![self] = "cLoad"]
                           /\ sid' = sid
                /\ UNCHANGED << version, mu, clock, calls, started, myId, 
                                myVer, won >>

cLoad(self) == /\ pc[self] = "cLoad"
               /\ sid # 0
               /\ myId' = [myId EXCEPT ![self] = sid]
               /\ pc' = [pc EXCEPT ![self] = "cAdd"]
               /\ UNCHANGED << version, sid, mu, clock, calls, started, myVer, 
                               won >>

cAdd(self) == /\ pc[self] = "cAdd"
              /\ version' = version + 1
              /\ myVer' = [myVer EXCEPT ![self] = version']
              /\ pc' = [pc EXCEPT ![self] = "cEnd"]
              /\ UNCHANGED << sid, mu, clock, calls, started, myId, won >>

cEnd(self) == /\ pc[self] = "cEnd"
              /\ IF Locked
                    THEN /\ mu' = "free"
                    ELSE /\ TRUE
                         /\ mu' = mu
              /\ clock' = clock + 1
              /\ calls' = (calls \cup {<<self, started[self], clock', myId[self], myVer[self]>>})
              /\ pc' = [pc EXCEPT ![self] = "Done"]
              /\ UNCHANGED << version, sid, started, myId, myVer, won >>

C(self) == cStart(self) \/ cLock(self) \/ cCas(self) \/ cStore(self)
              \/ cLoad(self) \/ cAdd(self) \/ cEnd(self)

(* Allow infinite stuttering to prevent deadlock on termination. *)
Terminating == /\ \A self \in ProcSet: pc[self] = "Done"
               /\ UNCHANGED vars

Next == (\E self \in Callers: C(self))
           \/ Terminating

Spec == /\ Init /\ [][Next]_vars
        /\ \A self \in Callers : WF_vars(C(self))

Termination == <>(\A self \in ProcSet: pc[self] = "Done")

\* END TRANSLATION

SameSessionId    == \A a, b \in calls : a[4] = b[4]
VersionsDistinct == \A a, b \in calls : a # b => a[5] # b[5]
RealTimeOrder    == \A a, b \in calls : a[3] < b[2] => a[5] < b[5]

Actor == IF \E c \in Callers : C(c) THEN CHOOSE c \in Callers : C(c) ELSE "none"
St == [pc |-> pc, version |-> version, sid |-> sid, mu |-> mu]
EmitInitInv == (clock = 0) => PrintT(<<"VERIF_INIT", ToJson(St)>>)
EmitEdge == Actor = "none" \/ PrintT(<<"VERIF_EDGE", ToJson([f |-> St, a |-> [proc |-> Actor, label |-> pc[Actor]], t |-> St'])>>)
=============================================================================
