CONSTANTS
  Impl = "stale"
  K = 2
  Pool = 0
SPECIFICATION Spec
INVARIANTS NothingAfterNil NilAtMostOnce CandAtMostOnce Complete
CHECK_DEADLOCK FALSE
