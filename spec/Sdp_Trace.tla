------------------------------ MODULE Sdp_Trace ------------------------------
(* Trace specification for the SDP family. Lines recorded from a pair of     *)
(* real PeerConnections (who = "A" | "B"):                                    *)
(*   desc   a description CreateOffer/CreateAnswer returned (d), the          *)
(*          transceivers at that moment (trs), whether a data channel was     *)
(*          requested (dc) and, for answers, the applied remote offer (offer) *)
(*   apply  a SetLocal/SetRemoteDescription call: mids of the description     *)
(*   act    any other API call; carries the transceiver list                  *)
EXTENDS SdpOps, TraceKit

VARIABLES pos, viol, cnt, prev, used, trMid, appNeg, orig, sawTwice

Who == {"A", "B"}
Unified(e) == e.cfg # "planb"
Secs(d) == d.sections
AllMedia(d, Pred(_)) == \A i \in 1..Len(d.sections) :
                          (Media(d.sections[i]) /\ Accepted(d.sections[i])) => Pred(d.sections[i])

\* pairs (answer section, offer section) at the same index with the same mid, both accepted media
Pairs(a, o) == {i \in 1..Len(a.sections) :
                  /\ i <= Len(o.sections) /\ a.sections[i].mid = o.sections[i].mid
                  /\ a.sections[i].kind = o.sections[i].kind
                  /\ Media(a.sections[i]) /\ Accepted(a.sections[i]) /\ Accepted(o.sections[i])}

\* where the payload types (codecs) of an answered section that the offered section does not list come
\* from: another offered section of the same kind (pion negotiates codecs per kind), or nowhere in the offer
OfferedElsewhere(o, i, pt) == \E j \in 1..Len(o.sections) : j # i /\ o.sections[j].kind = o.sections[i].kind
                                                              /\ pt \in Range(o.sections[j].pts)
ExtraOrigin(d, o, i) ==
  LET extra == Range(d.sections[i].pts) \ Range(o.sections[i].pts) IN
  IF extra = {} THEN "none"
  ELSE IF \A pt \in extra : OfferedElsewhere(o, i, pt) THEN "other-section" ELSE "not-in-offer"
CodecElsewhere(o, i, m) == \E j \in 1..Len(o.sections) : j # i /\ o.sections[j].kind = o.sections[i].kind /\
                              \E k \in 1..Len(o.sections[j].rtpmap) : o.sections[j].rtpmap[k].pt = m.pt /\ o.sections[j].rtpmap[k].name = m.name
WrongCodecOrigin(d, o, i) ==
  LET a == d.sections[i]
      bad == {k \in 1..Len(a.rtpmap) : a.rtpmap[k].pt \in Range(a.pts) /\
                ~\E j \in 1..Len(o.sections[i].rtpmap) : o.sections[i].rtpmap[j].pt = a.rtpmap[k].pt
                                                          /\ o.sections[i].rtpmap[j].name = a.rtpmap[k].name} IN
  IF bad = {} THEN "none"
  ELSE IF \A k \in bad : CodecElsewhere(o, i, a.rtpmap[k]) THEN "other-section" ELSE "not-in-offer"

OfferListsCodecTwice(o) ==
  \E i \in 1..Len(o.sections) : \E a, b \in 1..Len(o.sections[i].rtpmap) :
      LET x == o.sections[i].rtpmap[a]  y == o.sections[i].rtpmap[b] IN
      a # b /\ x.name = y.name /\ x.name # "rtx" /\ x.clock = y.clock /\ x.ch = y.ch

Preds(e) ==
  LET desc  == e.ev = "desc" /\ e.ok
      d     == e.d
      offer == desc /\ e.op = "CreateOffer"
      ans   == desc /\ e.op = "CreateAnswer" /\ e.offer.parses
      o     == e.offer
      hasTrs == e.ev \in {"desc", "apply", "act"}
      cur   == Mids(d)
  IN
  {
   \* ---- C06
   \* C11 along sequential histories: every description an endpoint generates has the session id of the first one
   \* and a version above that of the one generated before it (whatever was applied, rolled forward or left unused)
   P("C11", "SeqSameSessionId", desc /\ d.parses /\ orig[e.who] # <<>>, d.sessId = orig[e.who][1]),
   P("C11", "SeqVersionIncreasing", desc /\ d.parses /\ orig[e.who] # <<>>, d.sessVer > orig[e.who][2]),
   P("C06", "Parses", desc, d.parses),
   P("C06", "UniqueMids", desc /\ d.parses, UniqueMids(d)),
   P("C06", "BundleExact", desc /\ d.parses, BundleExact(d)),
   P("C06", "SectionComplete", desc /\ d.parses, \A i \in 1..Len(d.sections) : SectionComplete(d, d.sections[i])),
   \* ---- C07
   P("C07", "SameLength", ans, SameLength(d, o)),
   P("C07", "SameKindAndMid", ans, SameKindAndMid(d, o)),
   P("C07", "UnusableRejectedInPlace", ans, UnusableRejectedInPlace(d, o)),
   \* ---- C08
   P("C08", "LegalAnswerDir", ans /\ Pairs(d, o) # {},
        \A i \in Pairs(d, o) : Len(d.sections[i].dirs) = 1 =>
             LegalAnswerDir(DirOf(o.sections[i]), DirOf(d.sections[i]))),
   P("C08", "NoSendWithoutRecv", ans /\ Pairs(d, o) # {},
        \A i \in Pairs(d, o) : Sends(DirOf(d.sections[i])) => Recvs(DirOf(o.sections[i]))),
   P("C08", "NoRecvWithoutSend", ans /\ Pairs(d, o) # {},
        \A i \in Pairs(d, o) : Recvs(DirOf(d.sections[i])) => Sends(DirOf(o.sections[i]))),
   \* ---- C09
   P("C09", "MidNeverChanges", hasTrs /\ Unified(e),
        \A k \in 1..Len(e.trs) : \A x \in trMid : (x[1] = e.who /\ x[2] = e.trs[k].id) => x[3] = e.trs[k].mid),
   P("C09", "PositionStable", desc /\ d.parses /\ Unified(e), PositionStable(cur, prev[e.who])),
   P("C09", "NoMidReuse", desc /\ d.parses /\ Unified(e), NoMidReuse(cur, prev[e.who], used[e.who])),
   \* ---- C10
   \* the signature says whether the description answers an offer that lists one codec (name, clock rate,
   \* channels) under two payload types: pion then answers with one payload type listed twice (recorded), and
   \* so do the descriptions the endpoint generates afterwards (its negotiated codecs now hold the codec twice)
   PD("C10", "PayloadsUnique", desc /\ d.parses, AllMedia(d, PayloadsUnique),
      IF ans /\ OfferListsCodecTwice(o) THEN "offer-lists-a-codec-twice"
      ELSE IF sawTwice[e.who] THEN "after-an-offer-that-lists-a-codec-twice" ELSE "plain"),
   P("C10", "AttrsReferToListed", desc /\ d.parses, AllMedia(d, AttrsReferToListed)),
   P("C10", "AptListed", desc /\ d.parses, AllMedia(d, AptListed)),
   P("C10", "ExtmapOK", desc /\ d.parses, AllMedia(d, ExtmapOK)),
   \* ---- C12
   P("C12", "OneSectionPerTransceiver", offer /\ d.parses /\ Unified(e), OneSectionPerTransceiver(d, e.trs)),
   P("C12", "KindMidDirection", offer /\ d.parses /\ Unified(e) /\ OneSectionPerTransceiver(d, e.trs),
        \A k \in 1..Len(e.trs) : KindMidDirection(d, e.trs[k])),
   P("C12", "Msid", offer /\ d.parses /\ Unified(e) /\ OneSectionPerTransceiver(d, e.trs),
        \A k \in 1..Len(e.trs) : MsidOK(d, e.trs[k])),
   P("C12", "Ssrcs", offer /\ d.parses /\ Unified(e) /\ OneSectionPerTransceiver(d, e.trs),
        \A k \in 1..Len(e.trs) : SsrcsOK(d, e.trs[k])),
   \* an application section that an applied description already carries stays (JSEP), whoever asked for it
   P("C12", "Rids", offer /\ d.parses /\ Unified(e) /\ OneSectionPerTransceiver(d, e.trs),
        \A k \in 1..Len(e.trs) : RidsOK(d, e.trs[k])),
   P("C12", "ApplicationIff", offer /\ d.parses /\ Unified(e),
        HasApplication(d) = (e.dc \/ e.cfg = "alwaysdc" \/ (e.cfg = "alwaysdcA" /\ e.who = "A") \/ appNeg[e.who])),
   \* ---- C16
   P("C16", "PairsExist", ans, Pairs(d, o) = Pairs(d, o))
  }
  \cup
  \* ---- C16, one instance per answered media section; the signature carries the abstract class of
  \* the offered section (how many of its codecs are known locally) and the origin of the transceiver
  { PD("C16", "PayloadOffered", TRUE, PayloadOffered(d.sections[i], o.sections[i]),
       o.sections[i].cls \o "/" \o d.sections[i].age \o "/extra:" \o ExtraOrigin(d, o, i)) : i \in (IF ans THEN Pairs(d, o) ELSE {}) }
  \cup
  { PD("C16", "SameCodec", TRUE, SameCodec(d.sections[i], o.sections[i]),
       o.sections[i].cls \o "/" \o d.sections[i].age \o "/codec:" \o WrongCodecOrigin(d, o, i)) : i \in (IF ans THEN Pairs(d, o) ELSE {}) }


Init == /\ pos = 1 /\ viol = {} /\ cnt = EmptyCount
        /\ prev = [w \in Who |-> <<>>] /\ used = [w \in Who |-> {}] /\ trMid = {}
        /\ appNeg = [w \in Who |-> FALSE] /\ orig = [w \in Who |-> <<>>]
        /\ sawTwice = [w \in Who |-> FALSE]

Step ==
  /\ pos <= Len(Trace)
  /\ LET e == Trace[pos] IN
       IF e.ev = "reset"
       THEN /\ prev' = [w \in Who |-> <<>>] /\ used' = [w \in Who |-> {}] /\ trMid' = {}
            /\ appNeg' = [w \in Who |-> FALSE] /\ orig' = [w \in Who |-> <<>>]
            /\ sawTwice' = [w \in Who |-> FALSE]
            /\ UNCHANGED <<viol, cnt>>
       ELSE LET ps == Preds(e) IN
            /\ viol' = Merge(viol, Failures(ps, e, pos))
            /\ cnt'  = Count(cnt, ps)
            /\ IF e.ev = "apply" /\ e.ok
               THEN /\ prev' = [prev EXCEPT ![e.who] = e.mids]
                    /\ used' = [used EXCEPT ![e.who] = @ \cup Range(e.mids)]
                    /\ appNeg' = [appNeg EXCEPT ![e.who] = @ \/ e.hasApp]
               ELSE UNCHANGED <<prev, used, appNeg>>
            /\ sawTwice' = IF e.ev = "desc" /\ e.ok /\ e.op = "CreateAnswer" /\ e.offer.parses /\ OfferListsCodecTwice(e.offer)
                           THEN [sawTwice EXCEPT ![e.who] = TRUE] ELSE sawTwice
            /\ orig' = IF e.ev = "desc" /\ e.ok /\ e.d.parses THEN [orig EXCEPT ![e.who] = <<e.d.sessId, e.d.sessVer>>] ELSE orig
            /\ trMid' = trMid \cup {<<e.who, e.trs[k].id, e.trs[k].mid>> :
                                      k \in {j \in 1..Len(e.trs) : e.trs[j].mid # ""}}
  /\ pos' = pos + 1

Done == pos = Len(Trace) + 1 /\ UNCHANGED <<pos, viol, cnt, prev, used, trMid, appNeg, orig, sawTwice>>
Next == Step \/ Done
Rep  == Report(pos, viol, cnt)
=============================================================================
