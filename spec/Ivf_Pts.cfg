\* exhaustive (quick tier), header / frame count / PTS: timebases, direct mode, start timestamps around the 32-bit
\* wrap, increments, seekable or not; single-packet frames, streams that satisfy the premise
CONSTANTS
  Codecs = {"VP8"}
  Mtus = {40}
  MaxFrames = 2
  Sizes = {5}
  RelSizes = FALSE
  MaxRandPk = 0
  Rates <- RatesAll
  Starts <- StartsWrap
  Deltas <- DeltasPts
  MaxRandDelta = 0
  Directs = {FALSE, TRUE}
  Ctors = {"buf", "memseek"}
  Dims <- DimsOne
  Lossy = FALSE
  NonKeyStart = FALSE
  Pads = FALSE
  Sample = FALSE
  Emit = FALSE
  RdLimit = 1048576
  BigDeltas <- NoDeltas
  MaxBig = 0
  InitSample = 0
INIT Init
NEXT Next
INVARIANTS TypeOK ModelReadBack ModelHeader ModelCount ModelPts ModelPremiseAssemblesAll ModelKeyGate ModelWholeFrames
CHECK_DEADLOCK FALSE
