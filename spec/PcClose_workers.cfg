CONSTANTS
  Impl = "fixed"
  Closers = {"k1", "k2", "k3"}
  Graceful = {"k2", "k3"}
  Workers = 1
SPECIFICATION Spec
INVARIANTS EmitInitInv FinalSignalingClosed FinalConnectionClosed NoStateAfterClosed GracefulWaits
PROPERTIES AllReturn
ACTION_CONSTRAINT EmitEdge
CHECK_DEADLOCK FALSE
