---------------------------- MODULE Gatherer_Trace ----------------------------
(* Trace specification for C24. Lines: emit (what OnICECandidate was called   *)
(* with: a candidate, identified by its string, or nil), in the order of the  *)
(* handler calls; end (after the nil callback and every SetLocalDescription   *)
(* returned): how many local candidates the gatherer holds.                   *)
(* `ordered` is true on gate-driven runs, where one goroutine runs at a time  *)
(* and the order of the lines is the order of the reports; order-sensitive    *)
(* predicates are judged only there.                                          *)
EXTENDS TraceKit

VARIABLES pos, viol, cnt, seen, nils

Preds(e) == {
   P("C24", "CandidateOnce", e.ev = "emit" /\ e.c = "cand", e.id \notin seen),
   P("C24", "NilAtMostOnce", e.ev = "emit" /\ e.c = "nil", nils = 0),
   P("C24", "NothingAfterNil", e.ev = "emit" /\ e.c = "cand" /\ e.ordered, nils = 0),
   P("C24", "EveryCandidateReported", e.ev = "end" /\ e.quiesced /\ e.flushes > 0, Cardinality(seen) = e.gathered),
   P("C24", "NilReported", e.ev = "end" /\ e.quiesced /\ e.flushes > 0, nils >= 1)
  }

Init == pos = 1 /\ viol = {} /\ cnt = EmptyCount /\ seen = {} /\ nils = 0

Step ==
  /\ pos <= Len(Trace)
  /\ LET e == Trace[pos] IN
       \* restart: an ICE restart begins a new gathering of the same connection; its candidates and its
       \* end-of-gathering marker are counted anew
       IF e.ev \in {"reset", "restart"} THEN seen' = {} /\ nils' = 0 /\ UNCHANGED <<viol, cnt>>
       ELSE LET ps == Preds(e) IN
            /\ viol' = Merge(viol, Failures(ps, e, pos))
            /\ cnt'  = Count(cnt, ps)
            /\ seen' = IF e.ev = "emit" /\ e.c = "cand" THEN seen \cup {e.id} ELSE seen
            /\ nils' = IF e.ev = "emit" /\ e.c = "nil" THEN nils + 1 ELSE nils
  /\ pos' = pos + 1

Done == pos = Len(Trace) + 1 /\ UNCHANGED <<pos, viol, cnt, seen, nils>>
Next == Step \/ Done
Rep  == Report(pos, viol, cnt)
=============================================================================
