CONSTANTS
  Impl = "asis"
  Space = "reader"
INIT Init
NEXT Next
INVARIANTS ModelReaderRejects
CHECK_DEADLOCK FALSE
