CONSTANTS
  Impl = "asis"
  Enqs = {"a", "b"}
  SelfEnq = {"a"}
  Waiters = {"w"}
  Closers = {"c"}
  MaxGen = 4
SPECIFICATION Spec
INVARIANTS RunsEverythingAccepted DoneCovers
CHECK_DEADLOCK FALSE
