\* exhaustive (thorough tier), as Ivf_Big: all codecs, two kinds of output (buffer, file)
CONSTANTS
  Codecs <- AllCodecs
  Mtus = {65000}
  MaxFrames = 3
  Sizes = {100}
  RelSizes = FALSE
  MaxRandPk = 0
  Rates <- RatesOne
  Starts <- StartsOne
  Deltas = {3000}
  MaxRandDelta = 0
  Directs = {FALSE}
  Ctors = {"buf", "file"}
  Dims <- DimsOne
  Lossy = FALSE
  NonKeyStart = FALSE
  Pads = FALSE
  Sample = FALSE
  Emit = TRUE
  RdLimit = 1048576
  BigDeltas <- BigDeltasAll
  MaxBig = 1
  InitSample = 0
INIT Init
NEXT Next
INVARIANTS TypeOK ModelReadBack ModelHeader ModelCount ModelPts ModelPremiseAssemblesAll ModelKeyGate ModelWholeFrames EmitVec
CHECK_DEADLOCK FALSE
