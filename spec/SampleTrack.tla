----------------------------- MODULE SampleTrack -----------------------------
(* Generative model of TrackLocalStaticSample.WriteSample                    *)
(* (track_local_static.go) with the packetizer / sequencer of pion/rtp it    *)
(* drives, for C28.  The code's arithmetic is transcribed step by step; the  *)
(* float64 `remainder` is modelled by the exact fraction it stands for       *)
(* (units of 1/Den tick), so the model is the *intended* algorithm; the real *)
(* code may deviate from it by float rounding, which the property allows     *)
(* for ("within one tick").                                                  *)
(*                                                                           *)
(*   WriteSample(d, np, N):                                                  *)
(*     N times sequencer.NextSequenceNumber()                                *)
(*     tickF = d * clockRate                                                 *)
(*     if N > 0 { dropTotal = tickF*N + remainder; dropTicks = floor;        *)
(*                remainder = frac; packetizer.SkipSamples(dropTicks) }      *)
(*     curTotal = tickF + remainder; curTicks = floor; remainder = frac      *)
(*     Packetize(data, curTicks): np packets with consecutive sequence       *)
(*     numbers at packetizer.Timestamp, then Timestamp += curTicks           *)
(*     (np = 0, empty data: only the timestamp advances)                     *)
(*                                                                           *)
(* Named alternatives: Impl = "trunc" drops the remainder (per-sample        *)
(* truncation, the drift the property is about), Impl = "nodropdur" skips    *)
(* sequence numbers but not the duration.  TLC exhibits both.                *)
(*                                                                           *)
(* Track options and bindings.  The track may be created with                *)
(* WithRTPSequenceNumber / WithRTPTimestamp (seqOpt / tsOpt) or without (the *)
(* packetizer then starts at random values).  Bind creates the packetizer    *)
(* and the sequencer on the FIRST call only; a later Bind (same track on a   *)
(* second sender, or a re-bind) and Unbind change who receives the packets,  *)
(* never the stream.  Impl = "rebindseq" is the named wrong alternative in   *)
(* which every Bind with WithRTPSequenceNumber set installs a fresh          *)
(* sequencer in the track while the packetizer keeps the first one: the      *)
(* skip of PrevDroppedPackets then happens on a sequencer nobody reads.      *)
EXTENDS SampleTrackOps, Randomization

CONSTANTS Rates,     \* clock rates explored
          StartSet,  \* classes of initial timestamp / sequence number: subset of {"zero", "wrap", "rand"} (concretised by the driver)
          DurKinds,  \* subset of {"third", "ms1", "ms20", "ms33", "s30", "ntsc"}
          Drops,     \* values of PrevDroppedPackets
          Sizes,     \* number of packets a sample is meant to span (0 = empty data)
          MaxLen,    \* events (samples, binds, unbinds) per behaviour
          SeqOpts,   \* subset of BOOLEAN: WithRTPSequenceNumber given
          TsOpts,    \* subset of BOOLEAN: WithRTPTimestamp given
          Rebinds,   \* TRUE: a second sender may be bound / a sender unbound between samples
          Impl       \* "carry" (pion) | "trunc" | "nodropdur" | "rebindseq"

VARIABLES rate, start, seqOpt, tsOpt, \* parameters of the behaviour
          bound, detached,        \* senders bound (1 is bound by the driver at the start); WriteSample's sequencer is no longer the packetizer's
          ts, rem, seq,           \* implementation state: packetizer.Timestamp - initial, remainder (units), sequencer
          acc, lastSeq, prevLast, pend, \* normative ghosts: exact elapsed time, last sequence number written (now / before the last call), skips not yet visible
          pk, before, skipped,    \* what the last WriteSample emitted / the exact time before it / its total skip
          n, hist, done

vars == <<rate, start, seqOpt, tsOpt, bound, detached, ts, rem, seq, acc, lastSeq, prevLast, pend, pk, before, skipped, n, hist, done>>

\* the durations of the design, in integer nanoseconds (time.Duration)
DurNs(kind, R) ==
  CASE kind = "third" -> (Giga + (3 * R) \div 2) \div (3 * R)   \* a third of a tick, rounded to a nanosecond
    [] kind = "ms1"   -> 1000000
    [] kind = "ms20"  -> 20000000
    [] kind = "ms33"  -> 33333000
    [] kind = "s30"   -> 33333333                                \* 1/30 s
    [] kind = "ntsc"  -> 33366667                                \* 1001/30000 s

Init == /\ rate \in Rates /\ start \in StartSet /\ seqOpt \in SeqOpts /\ tsOpt \in TsOpts
        /\ bound = {1} /\ detached = FALSE
        /\ ts = 0 /\ rem = 0 /\ seq = 0          \* seq: offset of the last number the sequencer handed out
        /\ acc = ZeroTime /\ lastSeq = 0 /\ prevLast = 0 /\ pend = 0
        /\ pk = <<>> /\ before = ZeroTime /\ skipped = 0
        /\ n = 0 /\ hist = <<>> /\ done = FALSE

WriteSample(kind, np, N) ==
  LET d     == DurNs(kind, rate)
      Den   == RateDen(rate)
      tickU == d * RateNum(rate)                      \* tickF, in units
      seq1  == IF detached THEN seq ELSE (seq + N) % SeqMod    \* the skip is made on s.sequencer
      dropT == tickU * N + rem
      ts1   == IF N > 0 /\ Impl # "nodropdur" THEN ts + (dropT \div Den) ELSE ts
      rem1  == IF N > 0 /\ Impl # "nodropdur" THEN dropT % Den ELSE rem
      curT  == tickU + rem1
      curTicks == curT \div Den
      rem2  == IF Impl = "trunc" THEN 0 ELSE curT % Den
      b     == AddTime(acc, rate, d, N)
  IN /\ pk' = [i \in 1..np |-> [seq |-> (seq1 + i) % SeqMod, tsd |-> ts1]]
     /\ ts' = ts1 + curTicks /\ rem' = rem2 /\ seq' = (seq1 + np) % SeqMod
     /\ before' = b /\ acc' = AddTime(b, rate, d, 1)
     /\ skipped' = pend + N
     /\ pend' = IF np = 0 THEN pend + N ELSE 0
     /\ lastSeq' = IF np = 0 THEN lastSeq ELSE (seq1 + np) % SeqMod
     /\ prevLast' = lastSeq
     /\ hist' = Append(hist, [k |-> "sample", d |-> d, np |-> np, drop |-> N, b |-> 0,
                               eseq |-> (seq1 + 1) % SeqMod, ets |-> ts1])   \* what the model expects to come out

Stream == <<ts, rem, seq, acc, lastSeq, prevLast, pend, pk, before, skipped>>
BindEvent(kind, b) == [k |-> kind, d |-> 0, np |-> 0, drop |-> 0, b |-> b, eseq |-> 0, ets |-> 0]

\* Bind of a further sender: the packetizer exists already, only the list of receivers changes
BindMore(b) ==
  /\ Rebinds /\ b \notin bound
  /\ bound' = bound \cup {b}
  /\ detached' = (detached \/ (Impl = "rebindseq" /\ seqOpt))
  /\ pk' = <<>> /\ hist' = Append(hist, BindEvent("bind", b))
  /\ UNCHANGED <<ts, rem, seq, acc, lastSeq, prevLast, pend, before, skipped>>

\* one sender always stays bound (samples written to a track nobody is bound to reach no observer)
UnbindOne(b) ==
  /\ Rebinds /\ b \in bound /\ bound # {b}
  /\ bound' = bound \ {b}
  /\ pk' = <<>> /\ hist' = Append(hist, BindEvent("unbind", b))
  /\ UNCHANGED <<detached, ts, rem, seq, acc, lastSeq, prevLast, pend, before, skipped>>

Next ==
  \/ /\ n < MaxLen /\ ~done /\ n' = n + 1
     /\ \/ /\ \E kind \in DurKinds, np \in Sizes, N \in Drops : WriteSample(kind, np, N)
           /\ UNCHANGED <<bound, detached>>
        \/ \E b \in 1..2 : BindMore(b) \/ UnbindOne(b)
     /\ UNCHANGED <<rate, start, seqOpt, tsOpt, done>>
  \/ /\ n = MaxLen /\ ~done /\ done' = TRUE      \* single closing step: the behaviour is complete
     /\ UNCHANGED <<rate, start, seqOpt, tsOpt, bound, detached, ts, rem, seq, acc, lastSeq, prevLast, pend, pk, before, skipped, n, hist>>

Spec == Init /\ [][Next]_vars

\* Sampling variant for long behaviours (run with -simulate): instead of branching over the whole
\* alphabet at every step (54 successors, all of them evaluated), one action is drawn per step with
\* TLC's seeded generator; drops and empty samples are made rarer than in a uniform draw.
\* About one event in 25 binds the other sender or unbinds one of two.
SimNext ==
  \/ /\ n < MaxLen /\ ~done /\ n' = n + 1
     /\ \E kind \in RandomSubset(1, DurKinds), w \in RandomSubset(1, 1..10), z \in RandomSubset(1, 1..10),
           e \in RandomSubset(1, 1..25), b \in RandomSubset(1, 1..2) :
          LET N  == IF w <= 7 THEN 0 ELSE IF w <= 9 THEN 1 ELSE 3
              np == IF z <= 1 THEN 0 ELSE IF z <= 6 THEN 1 ELSE 3
          IN IF Rebinds /\ e = 1 /\ (b \notin bound \/ bound # {b})
             THEN IF b \in bound THEN UnbindOne(b) ELSE BindMore(b)
             ELSE N \in Drops /\ np \in Sizes /\ WriteSample(kind, np, N) /\ UNCHANGED <<bound, detached>>
     /\ UNCHANGED <<rate, start, seqOpt, tsOpt, done>>
  \/ /\ n = MaxLen /\ ~done /\ done' = TRUE
     /\ UNCHANGED <<rate, start, seqOpt, tsOpt, bound, detached, ts, rem, seq, acc, lastSeq, prevLast, pend, pk, before, skipped, n, hist>>
\* exhaustive runs need not distinguish states by the recorded history
mcview == <<rate, seqOpt, bound, detached, ts, rem, seq, acc, lastSeq, prevLast, pend, pk, before, skipped, n, done>>

\* ---- what TLC checks on the model -------------------------------------------------------------
TypeOK == /\ rem \in 0..(RateDen(rate) - 1) /\ acc.f \in 0..(RateDen(rate) - 1) /\ seq \in 0..(SeqMod - 1)
Emitted == pk # <<>>
\* the remainder-carrying algorithm is exact: implementation clock = floor of the exact elapsed time
ModelClockExact   == ts = FloorTicks(acc) /\ rem = acc.f
ModelSameTs       == Emitted => SameTsInSample(pk)
ModelNoDrift      == Emitted => TsNoDrift(pk, before)
ModelSeqPlusOne   == Emitted => SeqRunPlusOne(pk)
ModelDropSkips    == Emitted => SeqAfter(pk, prevLast, skipped)

\* ---- vectors for the replay --------------------------------------------------------------------
EmitVec == done => PrintT(<<"VERIF_VEC", ToJson([rate |-> rate, start |-> start, seqopt |-> seqOpt, tsopt |-> tsOpt,
                                                  events |-> hist])>>)
=============================================================================
