CONSTANTS
  MaxNals = 3
  MaxNalLen = 3
  HdrSyms = {"S", "H", "Z", "O"}
  BodySyms = {"Z", "O", "F"}
  Sample = 20
  Emit = TRUE
INIT Init
NEXT Next
INVARIANTS IntendedExact AsisExactWhenIncluded AsisCharacterised SplitIsExact EmitVec
CHECK_DEADLOCK FALSE
