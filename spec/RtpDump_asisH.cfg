CONSTANTS
  Impl = "current"
  Space = "header"
INIT Init
NEXT Next
INVARIANTS ModelRefusesIff ModelRoundTrip
CHECK_DEADLOCK FALSE
