------------------------------- MODULE RtpDump -------------------------------
(* Generative model for C36.  One behaviour = one input vector pushed        *)
(* through the rtpdump Writer (NewWriter, WritePacket ...) and read back   *)
(* with the Reader (NewReader, Next ...), both transcribed from              *)
(* pkg/media/rtpdump/{rtpdump,writer,reader}.go at field level:              *)
(*   Impl = "asis"      what pion does (uint16/uint32 conversions wrap, no   *)
(*                      refusal anywhere, Reader.Next only rejects length 0  *)
(*                      and computes length-8 in uint16),                    *)
(*   Impl = "intended"  the writer refuses what the format cannot hold and   *)
(*                      the reader rejects length fields below 8,            *)
(*   Impl = "current"   pion after c5e853e: Packet.Marshal refuses payloads   *)
(*                      over 65527 bytes and offsets outside 0..2^32-1 ms,   *)
(*                      Reader.Next rejects length fields below 8;           *)
(*                      Header.Marshal / NewWriter are unchanged (a non-IPv4 *)
(*                      source and a start time outside 32-bit seconds are   *)
(*                      still written).  "asis" stays as the record of the   *)
(*                      pinned code and of the counterexamples TLC finds.    *)
(* TLC checks on the bounded boundary domain that the format is a bijection  *)
(* on representable values (Decode(Encode(x)) = x), that the intended writer *)
(* writes exactly Encode(x), refuses iff unrepresentable, that reading back  *)
(* returns what was written, and that short length fields are rejected; on   *)
(* the as-is variant it exhibits the counterexamples.  The terminal states   *)
(* of the "current" run are the vectors replayed into pion, with what         *)
(* the transcription predicts (compared as model drift, never as a verdict). *)
EXTENDS RtpDumpOps, Randomization

CONSTANTS Impl,      \* "asis" | "current" | "intended"
          Space      \* which set of input vectors: "quick" | "thorough" | "replayT" | "writer" | "header" | "reader"

VARIABLES vec, phase, file, wi, herr, perrs, open, rd, out, last

vars == <<vec, phase, file, wi, herr, perrs, open, rd, out, last>>

X == [hdr |-> vec.hdr, pkts |-> vec.pkts]
NP == Len(vec.pkts)

\* ------------------------------------------------------------------ input space
V4(form, b) == [kind |-> "v4", form |-> form, b |-> b]
NoV4(kind)  == [kind |-> kind, form |-> 0, b |-> <<0, 0, 0, 0>>]
St(hi, lo, usec, ns) == [neg |-> FALSE, hi |-> hi, lo |-> lo, usec |-> usec, ns |-> ns]
StNeg == [neg |-> TRUE, hi |-> 0, lo |-> 1, usec |-> 0, ns |-> 0]          \* time.Unix(-1, 0)
Off(hi, lo, ns) == [neg |-> FALSE, hi |-> hi, lo |-> lo, ns |-> ns]
OffNeg == [neg |-> TRUE, hi |-> 0, lo |-> 1, ns |-> 0]                     \* -1 ms

SrcsAll == {V4(4, <<0, 0, 0, 0>>), V4(4, <<127, 0, 0, 1>>), V4(16, <<224, 2, 0, 1>>),
            V4(4, <<255, 255, 255, 255>>), V4(16, <<10, 0, 255, 7>>), NoV4("v6"), NoV4("nil")}
PortsAll == {0, 1, 5004, 65535}
SecsAll == {<<0, 0>>, <<0, 1>>, <<25000, 12345>>, <<32767, 65535>>, <<32768, 0>>, <<65535, 65535>>,
            <<65536, 0>>, <<65536, 1>>, <<131071, 65535>>}
StartsAll == {St(s[1], s[2], u, n) : s \in SecsAll, u \in {0, 1, 999999}, n \in {0, 1, 999}} \cup {StNeg}
HeadersAll == [src : SrcsAll, port : PortsAll, start : StartsAll]

H0 == [src |-> V4(4, <<127, 0, 0, 1>>), port |-> 5004, start |-> St(25000, 12345, 250000, 0)]

LensAll == {1, 2, 1500, 65526, 65527, 65528, 65529, 65535, 65536, 70000}
OffsAll == {Off(o[1], o[2], n) : o \in {<<0, 0>>, <<0, 1>>, <<0, 65535>>, <<1, 0>>, <<65535, 65535>>,
                                       <<65536, 0>>, <<65537, 5>>}, n \in {0, 1, 999999}} \cup {OffNeg}
Pk(rtcp, len, off, h) == [rtcp |-> rtcp, len |-> len, h |-> h, off |-> off]
PacketsAll(h) == {Pk(r, n, o, h) : r \in BOOLEAN, n \in LensAll, o \in OffsAll}

LensCore == {1, 65527, 65528, 70000}
OffsCore == {Off(0, 0, 0), Off(65535, 65535, 0), Off(65536, 0, 0), Off(0, 1, 1)}
PacketsCore(h) == {Pk(r, n, o, h) : r \in BOOLEAN, n \in LensCore, o \in OffsCore}
LensMid == {1, 2, 1500, 65527, 65528, 65535, 65536, 70000}
PacketsMid(h) == {Pk(r, n, o, h) : r \in BOOLEAN, n \in LensMid, o \in OffsCore \cup {OffNeg, Off(1, 0, 999999)}}

PG(len, rtcp, h) == Pk(rtcp, len, Off(0, 7, 0), h)       \* well-formed packets in front of a raw record

Rt(h, ps) == [kind |-> "rt", hdr |-> h, pkts |-> ps, L |-> 0, plen |-> 0, tail |-> 0]
Rec(k, L, plen, tail) ==
  [kind |-> "rec", hdr |-> H0,
   pkts |-> SubSeq(<<PG(12, FALSE, "g1"), PG(8, TRUE, "g2")>>, 1, k),
   L |-> L, plen |-> plen, tail |-> tail]

RecLens  == (0..9) \cup {12, 20, 65535}
RecTails == {0, 1, 7, 8, 12, 100, 65527, 65528, 65529, 65534, 65535, 65536, 70000}
RecSpace == {Rec(k, L, pl, t) : k \in 0..2, L \in RecLens, pl \in {0, 5}, t \in RecTails}

\* (the larger sets take a dummy argument so that TLC does not build them when they are not used)
HdrSpace(u) == {Rt(h, <<Pk(FALSE, 12, Off(0, 20, 0), "p1")>>) : h \in HeadersAll}
HdrSpaceQ  == {Rt(h, <<Pk(FALSE, 12, Off(0, 20, 0), "p1")>>) :
                 h \in [src : SrcsAll, port : {0, 65535}, start : StartsAll]}
OneSpace   == {Rt(H0, <<p>>) : p \in PacketsAll("p1")} \cup {Rt(H0, <<>>)}
TwoCore    == {Rt(H0, <<p, q>>) : p \in PacketsCore("p1"), q \in PacketsCore("p2")}
TwoMid(u)  == {Rt(H0, <<p, q>>) : p \in PacketsMid("p1"), q \in PacketsMid("p2")}
ThreeCore(u) == {Rt(H0, <<p, q, r>>) : p \in PacketsCore("p1"), q \in PacketsCore("p2"), r \in PacketsCore("p3")}

\* seeded sample of the full product (any header with up to three arbitrary boundary packets)
NRandom == 3000
RandomSpace(u) ==
  {Rt(r.hdr, SubSeq(<<r.p1, r.p2, r.p3>>, 1, r.n)) :
     r \in RandomSubset(NRandom, [hdr : HeadersAll, n : 1..3, p1 : PacketsAll("p1"),
                                  p2 : PacketsAll("p2"), p3 : PacketsAll("p3")])}

\* (TLC's union of large enumerated sets is quadratic: the spaces are disjunctions in Init instead)
InSpace(v) ==
  CASE Space = "quick"    -> v \in HdrSpaceQ \/ v \in OneSpace \/ v \in TwoCore \/ v \in RecSpace
    [] Space = "thorough" -> v \in HdrSpace(0) \/ v \in OneSpace \/ v \in TwoMid(0) \/ v \in ThreeCore(0) \/ v \in RecSpace
    [] Space = "replayT"  -> v \in HdrSpace(0) \/ v \in OneSpace \/ v \in TwoCore \/ v \in RecSpace \/ v \in RandomSpace(0)
    [] Space = "writer"   -> v \in OneSpace \/ v \in TwoCore                       \* as-is runs: one defect at a time
    [] Space = "header"   -> v \in HdrSpaceQ
    [] Space = "reader"   -> v \in RecSpace

\* ------------------------------------------------------------------ the writer
EmptyFile == [pre |-> [ip |-> <<>>, port |-> 0], hdr |-> <<>>, recs |-> <<>>]

\* Header.Marshal / NewWriter as they are: uint32(startNano / 1e9) and uint32(... / 1e3) wrap,
\* Source.To4() of a non-IPv4 address is nil (prints "<nil>" in the text line, copies nothing)
AsIsHeaderFile(h) ==
  LET s  == IF h.start.neg THEN [h.start EXCEPT !.hi = B16 - 1, !.lo = B16 - 1, !.usec = 0]
            ELSE [h.start EXCEPT !.hi = @ % B16]
      v4 == h.src.kind = "v4"
  IN [pre  |-> [ip |-> IF v4 THEN h.src.b ELSE <<>>, port |-> h.port],
      hdr  |-> EncHeader([h EXCEPT !.start = s]),
      recs |-> <<>>]

\* Packet.Marshal as it is: Length = uint16(len(payload)) + 8, PacketLength = uint16(len),
\* Offset = uint32(p.Offset / time.Millisecond); the whole payload is appended
AsIsRec(p) ==
  LET o == IF p.off.neg THEN [hi |-> B16 - 1, lo |-> B16 - 1] ELSE [hi |-> p.off.hi % B16, lo |-> p.off.lo]
  IN [hd |-> BE16((p.len + RecHdrLen) % B16) \o BE16(IF p.rtcp THEN 0 ELSE p.len % B16)
             \o BE16(o.hi) \o BE16(o.lo),
      n |-> p.len, h |-> p.h]

IntendedRec(p) == [hd |-> EncRecHdr(p), n |-> p.len, h |-> p.h]

NewWriter ==
  /\ phase = "new"
  /\ LET refuse == Impl = "intended" /\ HdrUnrepresentable(vec.hdr) IN
     /\ herr' = refuse
     /\ file' = IF refuse THEN file ELSE AsIsHeaderFile(vec.hdr)     \* identical to the format on representable headers
     /\ phase' = IF refuse THEN "done" ELSE "writing"
     /\ last' = [op |-> "NewWriter", i |-> 0, refused |-> refuse]
  /\ UNCHANGED <<vec, wi, perrs, open, rd, out>>

WritePacket ==
  /\ phase = "writing" /\ wi < NP
  /\ LET p == vec.pkts[wi + 1]
         refuse == Impl \in {"intended", "current"} /\ PktUnrepresentable(p) IN
     /\ perrs' = Append(perrs, refuse)
     /\ file' = IF refuse THEN file
                ELSE [file EXCEPT !.recs = Append(@, IF Impl = "asis" THEN AsIsRec(p) ELSE IntendedRec(p))]
     /\ last' = [op |-> "WritePacket", i |-> wi + 1, refused |-> refuse]
  /\ wi' = wi + 1
  /\ UNCHANGED <<vec, phase, herr, open, rd, out>>

\* a raw record (hand-built header, `tail` filler bytes) appended behind the written packets
Finish ==
  /\ phase = "writing" /\ wi = NP
  /\ file' = IF vec.kind = "rec"
             THEN [file EXCEPT !.recs = Append(@, [hd |-> BE16(vec.L) \o BE16(vec.plen) \o <<0, 0, 0, 5>>,
                                                   n |-> vec.tail, h |-> "fill"])]
             ELSE file
  /\ phase' = "written"
  /\ last' = [op |-> "Finish", i |-> 0, refused |-> FALSE]
  /\ UNCHANGED <<vec, wi, herr, perrs, open, rd, out>>

\* ------------------------------------------------------------------ the reader
\* NewReader: the text line must match the address/port pattern, 16 header bytes follow
NewReader ==
  /\ phase = "written"
  /\ open' = IF Len(file.pre.ip) = 4 /\ Len(file.hdr) = 16 THEN "ok" ELSE "err"
  /\ phase' = IF open' = "ok" THEN "reading" ELSE "done"
  /\ last' = [op |-> "NewReader", i |-> 0, refused |-> FALSE]
  /\ UNCHANGED <<vec, file, wi, herr, perrs, rd, out>>

Rest(i) ==   \* bytes in the file behind record i
  LET F[j \in i..Len(file.recs)] == IF j = Len(file.recs) THEN 0 ELSE RecHdrLen + file.recs[j + 1].n + F[j + 1]
  IN F[i]

Val(r, n, h) == [k |-> "val", rtcp |-> U16At(r.hd, 3) = 0, len |-> n, h |-> h,
                 off |-> [hi |-> U16At(r.hd, 5), lo |-> U16At(r.hd, 7)]]
Err == [k |-> "err"]
Eof == [k |-> "eof"]
Lost == [k |-> "lost"]     \* the reader is no longer aligned with the record structure: nothing is predicted

MaxCalls == IF vec.kind = "rec" THEN NP + 1 ELSE NP + 2

\* Reader.Next: 8 header bytes, then `Length - 8` payload bytes (computed in uint16 by pion)
Next1 ==
  /\ phase = "reading"
  /\ IF rd > Len(file.recs)
     THEN out' = Append(out, Eof) /\ phase' = "done" /\ rd' = rd
     ELSE LET r == file.recs[rd]
              L == RecLen(r)
              reject == IF Impl = "asis" THEN L = 0 ELSE L < RecHdrLen
              need == IF L >= RecHdrLen THEN L - RecHdrLen ELSE L - RecHdrLen + B16
              avail == r.n + Rest(rd)
              stop(o) == out' = Append(out, o) /\ phase' = "done" /\ rd' = rd
          IN IF reject THEN stop(Err)
             ELSE IF need = r.n
                  THEN /\ out' = Append(out, Val(r, need, r.h))
                       /\ rd' = rd + 1
                       /\ phase' = IF Len(out') >= MaxCalls THEN "done" ELSE "reading"
             ELSE IF need < r.n THEN out' = Append(Append(out, Val(r, need, "part")), Lost) /\ phase' = "done" /\ rd' = rd
             ELSE IF avail = 0 THEN stop(Eof)          \* io.ReadFull read nothing: io.EOF is passed on
             ELSE IF avail < need THEN stop(Err)       \* io.ErrUnexpectedEOF -> errMalformed
             ELSE out' = Append(Append(out, Val(r, need, "mixed")), Lost) /\ phase' = "done" /\ rd' = rd
  /\ last' = [op |-> "Next", i |-> rd, refused |-> FALSE]
  /\ UNCHANGED <<vec, file, wi, herr, perrs, open>>

Init == /\ InSpace(vec)
        /\ phase = "new" /\ file = EmptyFile /\ wi = 0 /\ herr = FALSE /\ perrs = <<>>
        /\ open = "none" /\ rd = 1 /\ out = <<>>
        /\ last = [op |-> "init", i |-> 0, refused |-> FALSE]

Next == NewWriter \/ WritePacket \/ Finish \/ NewReader \/ Next1
Spec == Init /\ [][Next]_vars

\* ------------------------------------------------------------------ what TLC checks on the model
ModelCodecLaw == vec.kind = "rt" => CodecLaw(X)

\* the (intended) writer writes exactly the format's encoding of a representable value
ModelWriterImplementsFormat ==
  (phase \in {"written", "reading", "done"} /\ vec.kind = "rt" /\ Representable(X)) => file = Encode(X)

ModelRefusesIff ==
  /\ last.op = "NewWriter"   => (last.refused <=> HdrUnrepresentable(vec.hdr))
  /\ last.op = "WritePacket" => (last.refused <=> PktUnrepresentable(vec.pkts[last.i]))

\* reading back returns the header and exactly the accepted packets, then end of file
NoneSlipped == HdrRepresentable(vec.hdr) /\ \A i \in 1..NP : perrs[i] \/ PktWritable(vec.pkts[i])
ModelRoundTrip ==
  (phase = "done" /\ vec.kind = "rt" /\ ~herr /\ NoneSlipped) =>
     LET acc == SelectIdx(NP, LAMBDA i : ~perrs[i])
         dh  == DecHeader(file.hdr)
     IN /\ open = "ok"
        /\ HdrMatches(vec.hdr, [b |-> dh.src.b, port |-> dh.port, hi |-> dh.start.hi, lo |-> dh.start.lo,
                                usec |-> dh.start.usec])
        /\ Len(out) = Len(acc) + 1
        /\ \A j \in 1..Len(acc) : out[j].k = "val" /\ PktMatches(vec.pkts[acc[j]], out[j])
        /\ out[Len(out)].k = "eof"

ModelReaderRejects ==
  (phase = "done" /\ vec.kind = "rec" /\ Len(out) >= NP + 1) =>
     LET o == out[NP + 1] IN
     /\ ReaderMustReject(vec.L) => o.k # "val"
     /\ (vec.L >= RecHdrLen /\ vec.tail >= vec.L - RecHdrLen) => o.k = "val" /\ o.len = vec.L - RecHdrLen
ModelGoodPrefix ==
  (phase = "done" /\ vec.kind = "rec") =>
     /\ Len(out) >= NP + 1
     /\ \A j \in 1..NP : out[j].k = "val" /\ PktMatches(vec.pkts[j], out[j])

\* ------------------------------------------------------------------ vectors for the replay
EmitVec ==
  phase = "done" =>
    PrintT(<<"VERIF_VEC", ToJson([vec |-> vec,
                                  exp |-> [herr |-> herr, perrs |-> perrs, open |-> open, out |-> out,
                                           hdr |-> file.hdr]])>>)
=============================================================================
