----------------------------- MODULE SynthOffer -----------------------------
(* Input space of remote offers that do not come from a pion peer (C06, C07, *)
(* C08, C16): up to MaxSecs m-sections, each with a media type (known and    *)
(* unknown ones), a mid (numeric, sparse, non-numeric), a direction          *)
(* attribute (or none) and a codec class; what the local endpoint had before *)
(* the offer arrived; and what follows the answer.  The normative operators  *)
(* of SdpOps are checked on an *intended* answer computed from the vector    *)
(* (one section per offered section, rejected in place when unusable, legal  *)
(* direction), so TLC also establishes that the statements are satisfiable   *)
(* together on the whole space.                                              *)
EXTENDS SdpOps, TLC, Json, Randomization

CONSTANTS NVec, NSec, MaxSecs

SKinds  == {"audio", "video", "application", "text", "message"}
SMids   == {"0", "1", "2", "5", "a", "audio0"}
SDirs   == {"sendrecv", "sendonly", "recvonly", "inactive", "absent"}
\* "renumbered*": the peer's payload-type numbering collides with the local one (its 98/99 are VP8 and
\* the RTX of that VP8, locally they are VP9 and VP9's RTX)
\* "twice": one codec listed under two payload types
SCodecs == {"supported", "unsupported", "mixed", "subset", "renumbered", "renumbered2", "twice"}
\* "video-prefs-*": a video transceiver with SetCodecPreferences (primary + RTX pairs, local numbering)
Pre     == {"none", "audio-sendrecv-track", "video-recvonly", "audio+video-tracks", "two-video",
            "video-prefs-vp9rtx", "video-prefs-vp8rtx-h264", "video-prefs-rtxfirst",
            "video-prefs-nopt", "audio-prefs-nopt"}     \* "-nopt": preferences given as capabilities, without payload types
\* "reoffer-*": the same offer again with every media direction replaced; the driver answers every other one
\* provisionally first (pranswer applied, then the final answer created in have-local-pranswer)
Post    == {"none", "dc+offer", "reoffer-sendonly", "reoffer-recvonly", "reoffer-inactive", "track+offer"}
Place   == {"media", "session"}

Section == [kind : SKinds, mid : SMids, dir : SDirs, codecs : SCodecs]
OfferOK(o) == /\ \A i, j \in 1..Len(o) : i # j => o[i].mid # o[j].mid          \* a well-formed offer has unique mids
              /\ Cardinality({i \in 1..Len(o) : o[i].kind = "application"}) <= 1

VARIABLE vec

\* Section has 600 elements; offers are built from a seeded sample of it (the full product is too
\* large to enumerate), so every run explores a different slice of the space.
SecSample == RandomSubset(NSec, Section)
Offers == UNION {{o \in [1..k -> SecSample] : OfferOK(o)} : k \in 1..MaxSecs}
\* every arrangement of codec preferences against every codec class of a single offered section of
\* that kind, live and inactive: all of them, not a sample
PrefPre == {"video-prefs-vp9rtx", "video-prefs-vp8rtx-h264", "video-prefs-rtxfirst", "video-prefs-nopt", "audio-prefs-nopt"}
PrefKind(p) == IF p = "audio-prefs-nopt" THEN "audio" ELSE "video"
PrefVecs == {[offer |-> <<[kind |-> PrefKind(p), mid |-> "0", dir |-> d, codecs |-> c]>>, pre |-> p, post |-> "none", place |-> "media"] :
                p \in PrefPre, c \in SCodecs, d \in {"sendrecv", "inactive"}}
\* every way of labelling an audio + video + application offer with three different mids of the alphabet
\* (numeric, sparse, non-numeric, in any order), followed by a local addition and a new offer: all of them
Mid3 == {t \in SMids \X SMids \X SMids : t[1] # t[2] /\ t[2] # t[3] /\ t[1] # t[3]}
MidVecs == {[offer |-> <<[kind |-> "audio", mid |-> t[1], dir |-> "sendrecv", codecs |-> "supported"],
                         [kind |-> "video", mid |-> t[2], dir |-> "sendrecv", codecs |-> "supported"],
                         [kind |-> "application", mid |-> t[3], dir |-> "sendrecv", codecs |-> "supported"]>>,
             pre |-> "none", post |-> po, place |-> "media"] : t \in Mid3, po \in {"track+offer", "dc+offer"}}
\* an audio and a video section in either order, the first one with no codec (or not only codecs) the
\* endpoint supports, the second one of every codec class: what an earlier section does to a later one
OrderVecs == {[offer |-> <<[kind |-> k[1], mid |-> "0", dir |-> "sendrecv", codecs |-> c1],
                           [kind |-> k[2], mid |-> "1", dir |-> "sendrecv", codecs |-> c2]>>,
               pre |-> "none", post |-> "none", place |-> "media"] :
                k \in {<<"audio", "video">>, <<"video", "audio">>}, c1 \in {"unsupported", "mixed"}, c2 \in SCodecs}
\* an offer that lists one codec under two payload types, answered, then followed by a local change and a local
\* offer (what the endpoint generates after it has negotiated such an offer): all of them
TwiceVecs == {[offer |-> <<[kind |-> k, mid |-> "0", dir |-> d, codecs |-> "twice"]>>, pre |-> "none", post |-> po, place |-> "media"] :
                k \in {"audio", "video"}, d \in {"sendrecv", "recvonly"}, po \in {"dc+offer", "track+offer"}}
Init == \/ vec \in RandomSubset(NVec, [offer : Offers, pre : Pre, post : Post, place : Place])
        \/ vec \in TwiceVecs
        \/ vec \in PrefVecs
        \/ vec \in MidVecs
        \/ vec \in OrderVecs
Next == UNCHANGED vec

\* the intended answer, abstractly: same sections; unusable ones rejected in place
Usable(s) == s.kind \in {"audio", "video", "application"} /\ (s.kind = "application" \/ s.codecs # "unsupported")
OfferDir(s) == IF s.dir = "absent" THEN "sendrecv" ELSE s.dir
IntendedDir(s) == CASE OfferDir(s) = "sendrecv" -> "recvonly"
                    [] OfferDir(s) = "sendonly" -> "recvonly"
                    [] OfferDir(s) = "recvonly" -> "inactive"
                    [] OTHER -> "inactive"
Intended == [i \in 1..Len(vec.offer) |->
               [kind |-> vec.offer[i].kind, mid |-> vec.offer[i].mid,
                port |-> IF Usable(vec.offer[i]) THEN 9 ELSE 0, dir |-> IntendedDir(vec.offer[i])]]
ModelMirrors == /\ Len(Intended) = Len(vec.offer)
                /\ \A i \in 1..Len(vec.offer) : Intended[i].kind = vec.offer[i].kind /\ Intended[i].mid = vec.offer[i].mid
ModelLegalDirs == \A i \in 1..Len(vec.offer) : LegalAnswerDir(OfferDir(vec.offer[i]), Intended[i].dir)
ModelUniqueMids == \A i, j \in 1..Len(Intended) : i # j => Intended[i].mid # Intended[j].mid

Emit == PrintT(<<"VERIF_VEC", ToJson(vec)>>)
=============================================================================
