CONSTANTS
  Impl = "asis"
  BadClasses = {"unparsable", "unknown-type", "no-mid", "no-ufrag", "no-pwd", "no-fingerprint", "bad-fingerprint", "bad-candidate", "bad-apt", "planb-shape-no-mid"}
INIT Init
NEXT Next
VIEW view
INVARIANTS TypeOK ModelStableNoPending ModelPendingShape ModelCurrentPair EmitInitInv
PROPERTIES ModelOnlyEdges ModelErrorAtomic ModelRollback
ACTION_CONSTRAINT EmitEdge
CHECK_DEADLOCK FALSE
