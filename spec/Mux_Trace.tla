------------------------------ MODULE Mux_Trace ------------------------------
(* Trace specification for C27.                                              *)
(*  class  b0 len runs       answers of MatchDTLS/MatchSRTP/MatchSRTCP (bit   *)
(*                           mask 1/2/4) for every second byte, run-length    *)
(*  route  b0 b1 len to      endpoints of a real Mux that received it         *)
(*  arrive d when / created / read got   one delivery schedule                *)
EXTENDS MuxOps, TraceKit

VARIABLES pos, viol, cnt, early, late

Answers(mask) == (IF mask % 2 = 1 THEN {"dtls"} ELSE {})
                 \cup (IF (mask \div 2) % 2 = 1 THEN {"srtp"} ELSE {})
                 \cup (IF (mask \div 4) % 2 = 1 THEN {"srtcp"} ELSE {})
SetOf(s) == {s[i] : i \in 1..Len(s)}

Preds(e) == {
   \* e.runs: <<first b1, last b1, mask>> runs on which the three answers are constant and which
   \* cover 0..255.  The expected class is constant on 0..191, 192..223 and 224..255, so checking the
   \* end points of a run and the break points inside it checks every second byte of the run.
   P("C27", "RunsCoverAllSecondBytes", e.ev = "class",
        /\ e.runs[1][1] = 0 /\ e.runs[Len(e.runs)][2] = 255
        /\ \A i \in 1..Len(e.runs) - 1 : e.runs[i + 1][1] = e.runs[i][2] + 1),
   P("C27", "Exclusive", e.ev = "class", \A i \in 1..Len(e.runs) : Exclusive(Answers(e.runs[i][3]))),
   P("C27", "Rfc7983Class", e.ev = "class",
        \A i \in 1..Len(e.runs) :
          \A b1 \in {e.runs[i][1], e.runs[i][2]} \cup ({191, 192, 223, 224} \cap (e.runs[i][1]..e.runs[i][2])) :
             ClassifiedOK(e.b0, IF e.len > 1 THEN b1 ELSE 0, e.len, Answers(e.runs[i][3]))),
   P("C27", "AtMostOneEndpoint", e.ev = "route", Len(e.to) <= 1),
   P("C27", "RoutedByClass", e.ev = "route",
        ClassifiedOK(e.b0, IF e.len > 1 THEN e.b1 ELSE 0, e.len, SetOf(e.to))),
   P("C27", "PendingFirstInOrder", e.ev = "read", PendingFirstInOrder(e.got, early, late)),
   P("C27", "ArrivalOrder", e.ev = "read", IsSubSeqOrdered(e.got)),
   P("C27", "QueuedAreDelivered", e.ev = "read" /\ e.consumed /\ Cardinality(early) <= 15,
        early \subseteq SetOf(e.got))
  }

Init == pos = 1 /\ viol = {} /\ cnt = EmptyCount /\ early = {} /\ late = {}

Step ==
  /\ pos <= Len(Trace)
  /\ LET e == Trace[pos] IN
       IF e.ev = "reset" THEN early' = {} /\ late' = {} /\ UNCHANGED <<viol, cnt>>
       ELSE LET ps == Preds(e) IN
            /\ viol' = Merge(viol, Failures(ps, e, pos))
            /\ cnt'  = Count(cnt, ps)
            /\ early' = IF e.ev = "arrive" /\ e.when = "before" THEN early \cup {e.d} ELSE early
            /\ late'  = IF e.ev = "arrive" /\ e.when = "after"  THEN late \cup {e.d} ELSE late
  /\ pos' = pos + 1

Done == pos = Len(Trace) + 1 /\ UNCHANGED <<pos, viol, cnt, early, late>>
Next == Step \/ Done
Rep  == Report(pos, viol, cnt)
=============================================================================
