------------------------------ MODULE CodecNeg ------------------------------
(* C15: generative model of MediaEngine codec negotiation.                   *)
(*                                                                          *)
(* A vector = the codecs registered locally (<= MaxLocal) and the codecs the *)
(* remote offers (<= MaxRemote), each a descriptor of CodecNegDomain with a  *)
(* payload type and a feedback list.  Negotiate is the transcription of      *)
(* RegisterCodec + updateFromRemoteDescription (CodecOps part 3) for one     *)
(* audio and one video section; TLC checks on every vector it visits that    *)
(* the result satisfies the normative NegotiatedOK and lookup operators.     *)
(* Mode "exhaust": every vector over the small sub-domain Small (two-level   *)
(* state graph so that workers share the work).  Mode "sample": NSample      *)
(* seeded random vectors over the whole domain; these are emitted            *)
(* (VERIF_VEC, with the negotiation result the model predicts) and replayed  *)
(* into pion.                                                                *)
EXTENDS CodecNegDomain, Json, Randomization

CONSTANTS Mode, MaxLocal, MaxRemote, NSample, Emit

VARIABLES stage,   \* "init" | "local" (exhaust: local chosen) | "vec"
          id, loc, rem, pre    \* loc, rem: sequences of [d, pt, fb] (indices into Descs, PTs, FBs)

vars == <<stage, id, loc, rem, pre>>

PrepTab == [i \in 1..NDesc |-> PrepC(NegLineCache, Descs[i])] \o <<>>      \* (\o forces the tuple)
Codec(r) == [mime |-> Descs[r.d].mime, clock |-> Descs[r.d].clock, ch |-> Descs[r.d].ch, line |-> Descs[r.d].line,
             P |-> PrepTab[r.d].P, pt |-> PTs[r.pt], fb |-> FBs[r.fb]]
Codecs(rs) == [i \in 1..Len(rs) |-> Codec(rs[i])]

\* the remote list as it can be written into one SDP: a payload type is offered once
RECURSIVE DedupPt(_, _)
DedupPt(rs, seen) == IF rs = <<>> THEN <<>>
                     ELSE IF Head(rs).pt \in seen THEN DedupPt(Tail(rs), seen)
                     ELSE <<Head(rs)>> \o DedupPt(Tail(rs), seen \cup {Head(rs).pt})

\* ---- the negotiation as pion performs it -----------------------------------------------------
Kinds == <<"audio", "video">>                  \* order of the media sections in the offer
RECURSIVE Sections(_, _, _, _)
Sections(ks, localAll, remoteAll, acc) ==      \* acc = [err, kinds]
  IF ks = <<>> THEN acc
  ELSE LET k  == Head(ks)
           lk == RegisterAll(<<>>, OfKind(localAll, k))
           rk == OfKind(remoteAll, k)
           present == rk # <<>>
           n  == IF present /\ ~acc.err THEN NegotiateSection(NegLineCache, lk, rk) ELSE [neg |-> <<>>, err |-> FALSE]
       IN Sections(Tail(ks), localAll, remoteAll,
                   [err   |-> acc.err \/ n.err,
                    kinds |-> Append(acc.kinds, [kind |-> k, present |-> present, local |-> lk, remote |-> rk, neg |-> n.neg])])
Negotiate(localAll, remoteAll) == Sections(Kinds, localAll, remoteAll, [err |-> FALSE, kinds |-> <<>>])

\* getCodecByPayload looks at video before audio
LookupOrder(kinds) == SelectSeq(kinds, LAMBDA x : x.kind = "video") \o SelectSeq(kinds, LAMBDA x : x.kind = "audio")
NegAll(kinds) == FlattenSeq([i \in 1..Len(kinds) |-> IF kinds[i].present THEN kinds[i].neg ELSE <<>>])

\* ---- normative operators on the model's result -----------------------------------------------
LookupOK(kinds) ==
  LET na == NegAll(kinds)
      lo == LookupOrder(kinds)
  IN \A i \in 1..Len(na) : NegotiatedBeforeLocalLookup(na, na[i].pt, Lookup(lo, na[i].pt))
ResultOK(r) ==
  ~r.err =>
    /\ \A i \in 1..Len(r.kinds) : r.kinds[i].present => NegotiatedOK(r.kinds[i].local, r.kinds[i].remote, r.kinds[i].neg)
    /\ LookupOK(r.kinds)

\* ---- vector spaces ---------------------------------------------------------------------------
Ref(d, pt, fb) == [d |-> d, pt |-> pt, fb |-> fb]
\* small sub-domain for the exhaustive mode: indices into Descs / PTs / FBs
SmallLocal  == { Ref(1, 2, 3), Ref(4, 3, 2), Ref(11, 5, 3), Ref(20, 3, 1), Ref(23, 3, 1), Ref(30, 6, 1), Ref(7, 4, 2) }
SmallRemote == { Ref(1, 2, 4), Ref(2, 4, 2), Ref(5, 5, 3), Ref(12, 5, 2), Ref(13, 2, 2), Ref(20, 3, 1), Ref(21, 4, 1),
                 Ref(24, 3, 1), Ref(31, 6, 2), Ref(8, 4, 3), Ref(NBoth - 3, 5, 2) }    \* last: H264 42001f
SeqsUpTo(S, n) == UNION {[1..k -> S] : k \in 0..n}

\* The remote never offers payload type 0 (PTs[1]): pion/sdp treats 0, 8 and 9 as the static
\* PCMU/PCMA/G722 and does not let an rtpmap rename them, so such an offer is not the codec list
\* the vector says it is.  Locally any payload type may be registered.
RandRef(nd)  == Ref(RandomElement(1..nd), RandomElement(1..Len(PTs)), RandomElement(1..Len(FBs)))
RandRefR(nd) == Ref(RandomElement(1..nd), RandomElement(2..Len(PTs)), RandomElement(1..Len(FBs)))
\* a remote codec is, half of the time, a re-spelling of a local one (same mime type up to case)
Near(r) == LET c == {i \in 1..NBoth : PrepTab[i].P.mf = PrepTab[r.d].P.mf} IN
           IF c = {} THEN RandRefR(NBoth) ELSE Ref(RandomElement(c), RandomElement(2..Len(PTs)), RandomElement(1..Len(FBs)))
\* (k is unused: a definition without parameters would be evaluated once and for all)
RandLocal(k) == [i \in 1..RandomElement(0..MaxLocal) |-> RandRef(NDesc)] \o <<>>
RandRemote(loc0) == [i \in 1..RandomElement(1..MaxRemote) |->
                    IF loc0 # <<>> /\ RandomElement(1..2) = 1 THEN Near(loc0[RandomElement(1..Len(loc0))]) ELSE RandRefR(NBoth)] \o <<>>

\* Structured vectors (a third of the sample): a primary video codec with an RTX codec on both
\* sides, the apt values mostly referring to the primary, payload types differing or colliding, the
\* codecs in a random order (an RTX codec listed before its primary is what the second pass is for).
VideoPrimaries == {i \in 1..NBoth : KindOf(PrepTab[i]) = "video" /\ PrepTab[i].P.mf # "video/rtx"}
AptPts == 2..5                                       \* indices of 96, 97, 98, 102 in PTs
RtxIdx(pti) == CHOOSE i \in 1..NBoth : Descs[i].mime = "video/rtx" /\ Descs[i].line = "apt=" \o ToString(PTs[pti])
Shuffle(sq) == LET pm == RandomElement(Permutations(1..Len(sq))) IN [i \in 1..Len(sq) |-> sq[pm[i]]] \o <<>>
Mostly(x, S) == IF RandomElement(1..4) = 1 THEN RandomElement(S) ELSE x
RandFb(n) == RandomElement(1..n)             \* (with a parameter: see RandLocal)
StructPair(dp, pl, pr) ==
  [loc |-> Shuffle(SubSeq(<< Ref(dp, pl, RandFb(Len(FBs))), Ref(RtxIdx(Mostly(pl, AptPts)), RandomElement(1..Len(PTs)), 1),
                            RandRef(NDesc) >>, 1, RandomElement(2..MaxLocal))),
   rem |-> Shuffle(SubSeq(<< Near(Ref(dp, 1, 1)), Ref(RtxIdx(Mostly(pr, AptPts)), RandomElement(2..Len(PTs)), RandFb(Len(FBs))),
                            RandRefR(NBoth), RandRefR(NBoth) >>, 1, RandomElement(2..MaxRemote)))]
\* the remote primary gets payload type pr
WithPt(r, pti) == [r EXCEPT !.pt = pti]
StructVec(k) ==
  LET dp == RandomElement(VideoPrimaries)
      pl == RandomElement(AptPts)
      pr == RandomElement(AptPts)
      sp == StructPair(dp, pl, pr)
  IN [loc |-> sp.loc,
      rem |-> [i \in 1..Len(sp.rem) |-> IF PrepTab[sp.rem[i].d].P.mf = PrepTab[dp].P.mf
                                          /\ \A j \in 1..(i - 1) : PrepTab[sp.rem[j].d].P.mf # PrepTab[dp].P.mf
                                       THEN WithPt(sp.rem[i], pr) ELSE sp.rem[i]] \o <<>>]
FreeVec(k) == LET l0 == RandLocal(k) IN [loc |-> l0, rem |-> RandRemote(l0)]

\* "RTX for some primaries only": two different primary video codecs, the local side registers an
\* RTX codec for the first one only, the remote offers both with an RTX codec each (payload types
\* all different on the remote side; half of the time the offered primary is the very descriptor
\* registered locally, else a re-spelling of it).
SameOrNear(d) == IF RandomElement(1..2) = 1 THEN d ELSE Near(Ref(d, 1, 1)).d
TwoWith(d1, d2, lp, qp) ==
  [loc |-> Shuffle(<< Ref(d1, lp[2], RandFb(Len(FBs))), Ref(RtxIdx(lp[2]), lp[4], 1), Ref(d2, lp[3], RandFb(Len(FBs))) >>),
   rem |-> Shuffle(<< Ref(SameOrNear(d1), qp[2], RandFb(Len(FBs))), Ref(RtxIdx(qp[2]), qp[4], RandFb(Len(FBs))),
                      Ref(SameOrNear(d2), qp[3], RandFb(Len(FBs))),
                      Ref(RtxIdx(qp[3]), RandomElement({qp[5], 6}), RandFb(Len(FBs))) >>)]
OtherPrimaries(d) == {i \in VideoPrimaries : PrepTab[i].P.mf # PrepTab[d].P.mf}
TwoFrom(d1) == TwoWith(d1, RandomElement(OtherPrimaries(d1)), RandomElement(Permutations(AptPts)), RandomElement(Permutations(AptPts)))
TwoVec(k) == TwoFrom(RandomElement(VideoPrimaries))

\* "same profile_idc, other profile-iop": an H264 codec on each side (packetization-mode=1, profiles
\* drawn independently from 42e0 / 4200 / 6400 / 640c), next to another video codec that both sides
\* have, so that a true exact match exists
IopWith(h1, h2, an, lp, qp) ==
  [loc |-> Shuffle(<< Ref(h1, lp[2], RandFb(Len(FBs))), Ref(an, lp[3], RandFb(Len(FBs))) >>),
   rem |-> Shuffle(<< Ref(h2, qp[2], RandFb(Len(FBs))), Ref(an, qp[3], RandFb(Len(FBs))), RandRefR(NBoth) >>)]
IopVec(k) == IopWith(RandomElement(H264Pm1), RandomElement(H264Pm1),
                     RandomElement({i \in VideoPrimaries : PrepTab[i].P.mf # "video/h264"}),
                     RandomElement(Permutations(AptPts)), RandomElement(Permutations(AptPts)))

RandVecOf(k, r) == CASE r = 1 -> FreeVec(k) [] r \in {2, 3} -> StructVec(k) [] r \in {4, 5} -> TwoVec(k) [] OTHER -> IopVec(k)
RandVec(k) == RandVecOf(k, RandomElement(1..6))

Init == stage = "init" /\ id = 0 /\ loc = <<>> /\ rem = <<>> /\ pre = FALSE

NextExhaust ==
  \/ /\ stage = "init" /\ stage' = "local" /\ loc' \in SeqsUpTo(SmallLocal, MaxLocal)
     /\ UNCHANGED <<id, rem, pre>>
  \/ /\ stage = "local" /\ stage' = "vec" /\ rem' \in {DedupPt(sq, {}) : sq \in SeqsUpTo(SmallRemote, MaxRemote)}
     /\ UNCHANGED <<id, loc, pre>>

SampleWith(k, v) ==
  /\ stage' = "vec" /\ id' = k /\ loc' = v.loc /\ rem' = DedupPt(v.rem, {}) /\ pre' = (RandomElement(1..2) = 1)
NextSample == stage = "init" /\ \E k \in 1..NSample : SampleWith(k, RandVec(k))

Next == IF Mode = "exhaust" THEN NextExhaust ELSE NextSample
Spec == Init /\ [][Next]_vars

\* ---- invariants ------------------------------------------------------------------------------
Result == Negotiate(Codecs(loc), Codecs(rem))
ModelNegotiatedOK == stage = "vec" => ResultOK(Result)

ExpOf(r) == [err |-> r.err,
             kinds |-> [i \in 1..Len(r.kinds) |-> [kind |-> r.kinds[i].kind, present |-> r.kinds[i].present,
                                                   neg |-> PlainSeq(r.kinds[i].neg)]]]
EmitWith(r) == PrintT(<<"VERIF_VEC", ToJson([id |-> id, local |-> PlainSeq(Codecs(loc)), remote |-> PlainSeq(Codecs(rem)),
                                             pre |-> pre, exp |-> ExpOf(r)])>>)
\* check and emission with one evaluation of the negotiation (sample mode, one worker)
CheckAndEmitWith(r) == ResultOK(r) /\ (Emit => EmitWith(r))
ModelNegotiatedOKAndEmit == stage = "vec" => CheckAndEmitWith(Result)
=============================================================================
