------------------------------ MODULE DirMatrix ------------------------------
(* Exhaustive first-exchange space for the direction and kind dependent SDP   *)
(* properties (C08, C12, C06, C07): what the offerer added (kind, direction,  *)
(* with or without a track), what the answerer had added before the offer     *)
(* arrived, and whether a second exchange in the opposite direction follows.  *)
(* The legal answer directions of RFC 3264 are checked on the intended        *)
(* response computed from the vector.                                         *)
EXTENDS SdpOps, TLC, Json

VARIABLE vec
Dirs4 == {"sendrecv", "sendonly", "recvonly", "inactive"}
Space == [kind : {"audio", "video"}, odir : Dirs4, otrack : BOOLEAN,
          adir : Dirs4 \cup {"none"}, atrack : BOOLEAN, back : BOOLEAN]
Init == vec \in {v \in Space : (v.adir = "none" => ~v.atrack)}
Next == UNCHANGED vec

\* intended answer direction: what the answerer wants, limited by what the offer allows
Wants(v) == IF v.adir = "none" THEN "recvonly" ELSE v.adir
Intended(v) == LET s == Sends(Wants(v)) /\ Recvs(v.odir)
                   r == Recvs(Wants(v)) /\ Sends(v.odir)
               IN IF s /\ r THEN "sendrecv" ELSE IF s THEN "sendonly" ELSE IF r THEN "recvonly" ELSE "inactive"
ModelLegal == LegalAnswerDir(vec.odir, Intended(vec))
Emit == PrintT(<<"VERIF_VEC", ToJson(vec)>>)
=============================================================================
