----------------------------- MODULE RemoteInput -----------------------------
(* Structural space of hostile remote input (C30): session descriptions given  *)
(* to SetRemoteDescription (optionally followed by CreateAnswer and             *)
(* SetLocalDescription), under every SDPSemantics, with every combination of    *)
(* locally registered media kinds, as the first description or as a             *)
(* renegotiation on a connected pair (where the queued background work runs);   *)
(* and candidate strings given to AddICECandidate.  Structures, not bytes:      *)
(* which attributes are present and which class of value each field holds.      *)
(* Contract: the call returns (a value or an error) and the process stays       *)
(* alive, including after queued work ran.                                      *)
EXTENDS Naturals, Sequences, FiniteSets, TLC, Json, Randomization

CONSTANTS NSec, NVec, NCand, NRtp
VARIABLE vec

Section == [kind : {"audio", "video", "application", "text"},
            mid : {"ok", "absent", "dup", "empty"},
            dir : {"sendrecv", "recvonly", "sendonly", "inactive", "absent"},
            ssrc : {"none", "one-msid", "one-plain", "two", "two-tracks", "nonnumeric", "overflow"},
            group : {"none", "fid2", "fid1", "fid3", "fecfr", "fid-nonnumeric", "fid-unknown"},
            rid : {"none", "one", "two-simulcast", "empty-rid", "dangling-simulcast", "paused"},
            rtpmap : {"ok", "unlisted", "none", "garbage"},
            extmap : {"ok", "malformed", "huge-id"},
            fmtp : {"ok", "apt-unlisted", "apt-garbage", "none", "params-short", "params-empty", "params-odd"},
            cand : {"none", "ok", "garbage"}]
\* fmtp "params-*": further codecs the endpoint supports (H264, VP9; Opus) whose format parameters are cut short
\* (profile-level-id=42), present without a value, or malformed -- they reach the codec matching
\* Most hostile input that gets far into the library is an almost valid description: a section is a
\* valid one with at most two fields replaced by a defect class.
FieldVals == [mid |-> {"absent", "dup", "empty"}, dir |-> {"recvonly", "sendonly", "inactive", "absent"},
              ssrc |-> {"none", "one-plain", "two", "two-tracks", "nonnumeric", "overflow"},
              group |-> {"fid2", "fid1", "fid3", "fecfr", "fid-nonnumeric", "fid-unknown"},
              rid |-> {"one", "two-simulcast", "empty-rid", "dangling-simulcast", "paused"},
              rtpmap |-> {"unlisted", "none", "garbage"}, extmap |-> {"malformed", "huge-id"},
              fmtp |-> {"apt-unlisted", "apt-garbage", "none", "params-short", "params-empty", "params-odd"}, cand |-> {"ok", "garbage"}]
Base(k) == [kind |-> k, mid |-> "ok", dir |-> "sendrecv", ssrc |-> "one-msid", group |-> "none", rid |-> "none",
            rtpmap |-> "ok", extmap |-> "ok", fmtp |-> "ok", cand |-> "none"]
Override == {<<f, v>> : f \in DOMAIN FieldVals, v \in UNION {FieldVals[g] : g \in DOMAIN FieldVals}}
Valid(o) == o[2] \in FieldVals[o[1]]
Near == {[[Base(k) EXCEPT ![o1[1]] = o1[2]] EXCEPT ![o2[1]] = o2[2]] :
            k \in {"audio", "video", "application", "text"}, o1 \in {o \in Override : Valid(o)}, o2 \in {o \in Override : Valid(o)}}
SecSample == RandomSubset(NSec, Near) \cup RandomSubset(NSec \div 3, Section)
Descs == UNION {[1..k -> SecSample] : k \in 1..3}
SdpVec == [kind : {"sdp"}, secs : Descs,
           sem : {"unified", "planb", "fallback"}, me : {"both", "audioonly", "videoonly", "none"},
           bundle : {"ok", "absent", "unknown-mid"}, fp : {"session", "media", "absent", "malformed"},
           follow : {"none", "answer", "answer+sld"}, phase : {"first", "connected"}, type : {"offer", "answer", "pranswer"},
           mirror : {FALSE}]
\* the part of the space whose session-level frame is valid, so that the sections are what is judged
GoodSdpVec == [kind : {"sdp"}, secs : Descs,
           sem : {"unified", "planb", "fallback"}, me : {"both", "audioonly", "videoonly", "none"},
           bundle : {"ok"}, fp : {"session", "media"},
           follow : {"answer+sld"}, phase : {"first", "connected"}, type : {"offer"}, mirror : {FALSE}]
\* hostile *answers*: the local endpoint first offers sections of the same kinds (receiving transceivers, a
\* data channel), so that the answer's sections meet transceivers and receivers are started for what it announces
AnsFields == {"ssrc", "group", "rid", "dir", "rtpmap"}     \* what decides which receivers are started
AnsOverride == {o \in Override : Valid(o) /\ o[1] \in AnsFields}
AnsOne  == {[Base(k) EXCEPT ![o[1]] = o[2]] : k \in {"audio", "video"}, o \in AnsOverride}
AnsNear == {[[Base(k) EXCEPT ![o1[1]] = o1[2]] EXCEPT ![o2[1]] = o2[2]] : k \in {"audio", "video"}, o1 \in AnsOverride, o2 \in AnsOverride}
AnsSample == RandomSubset(NSec, AnsNear) \cup {Base("application")}
AnswerVec == [kind : {"sdp"}, secs : UNION {[1..k -> AnsSample] : k \in 1..2},
           sem : {"unified", "planb", "fallback"}, me : {"both", "audioonly", "videoonly"},
           bundle : {"ok"}, fp : {"session", "media"},
           follow : {"none"}, phase : {"first", "connected"}, type : {"answer", "pranswer"}, mirror : {TRUE}]
\* every single defect class of an answered media section, on an established connection: all of them, not a sample
AnswerOne == [kind : {"sdp"}, secs : {<<x>> : x \in AnsOne},
           sem : {"unified", "planb"}, me : {"both"}, bundle : {"ok"}, fp : {"session"},
           follow : {"none"}, phase : {"connected"}, type : {"answer"}, mirror : {TRUE}]

\* every single defect class of an offered section, answered and applied, first exchange: all of them, not a sample
OffOne == {[Base(k) EXCEPT ![o[1]] = o[2]] : k \in {"audio", "video", "application", "text"}, o \in {x \in Override : Valid(x)}}
OfferOne == [kind : {"sdp"}, secs : {<<x>> : x \in OffOne},
           sem : {"unified", "planb", "fallback"}, me : {"both"}, bundle : {"ok"}, fp : {"session"},
           follow : {"answer+sld"}, phase : {"first"}, type : {"offer"}, mirror : {FALSE}]

CandVec == [kind : {"cand"},
            foundation : {"ok", "empty", "long"}, component : {"1", "0", "256", "x"}, proto : {"udp", "tcp", "xyz", "UDP"},
            prio : {"ok", "neg", "overflow", "x"}, addr : {"v4", "v6", "mdns", "garbage", "empty"}, port : {"ok", "0", "65536", "x"},
            typ : {"host", "srflx", "relay", "bogus", "missing"}, tail : {"none", "raddr", "raddr-noport", "tcptype", "ufrag", "dangling-key", "generation-x"},
            mid : {"ok", "nil", "unknown"}, line : {"0", "nil", "999"}, prefix : {"candidate:", "a=candidate:", ""}]

\* packets a connected peer sends: RTP on the negotiated stream, its repair stream or an unknown one, with every
\* combination of header options and the boundary payload lengths (an RTX payload starts with a 2-byte OSN);
\* RTCP of every type the receiving side handles, well-formed and with one defect
RtpVec == [kind : {"rtp"}, ssrc : {"primary", "rtx", "unknown"}, pt : {"primary", "rtx", "unknown"},
           cc : {0, 1, 15}, ext : {"none", "onebyte", "twobyte", "empty"}, pad : {"none", "ok", "overlong", "zero", "all"},
           plen : {0, 1, 2, 3, 40, 1100}, marker : BOOLEAN]
RtcpVec == [kind : {"rtcp"}, ptype : {"sr", "rr", "sdes", "bye", "nack", "pli", "fir", "remb", "twcc", "unknown"},
            shape : {"ok", "short", "length-over", "length-under", "count-over", "zero-ssrc", "compound-garbage"}]

Init == \/ vec \in RandomSubset(NRtp, RtpVec)
        \/ vec \in RtcpVec
        \/ vec \in RandomSubset((NVec * 5) \div 10, GoodSdpVec)
        \/ vec \in RandomSubset((NVec * 2) \div 10, SdpVec)
        \/ vec \in RandomSubset((NVec * 3) \div 10, AnswerVec)
        \/ vec \in AnswerOne
        \/ vec \in OfferOne
        \/ vec \in RandomSubset(NCand, CandVec)
Next == UNCHANGED vec
\* the contract, as far as the model can state it: every vector has a defined outcome class
Outcome == {"returned", "crashed", "hung"}
Emit == PrintT(<<"VERIF_VEC", ToJson(vec)>>)
=============================================================================
