----------------------------- MODULE SampleBuilder -----------------------------
(* Generative model for C31.  Three things live here:                        *)
(*                                                                           *)
(* 1. A generator of sessions: a sender produces frames of 1..3 packets      *)
(*    (optionally two consecutive frames share a timestamp, optionally no    *)
(*    partition-tail markers), the network delivers them with bounded        *)
(*    reordering, loss and duplication, the receiver calls Push, Pop (one    *)
(*    or until nil, or after every Push), possibly Flush in mid-stream, and  *)
(*    finally Flush and Pop until nil.  The first sequence number is         *)
(*    M - startBack, so streams cross the wrap.                              *)
(*                                                                           *)
(* 2. Algo = "abstract": the normative machine.  Pop may return ANY sample   *)
(*    the legality guards of SampleBuilderOps allow.  TLC checks that the    *)
(*    guards imply InOrder and NoPacketTwice on a small modulus.             *)
(*                                                                           *)
(* 3. Algo = "ring": the algorithm of pkg/media/samplebuilder transcribed    *)
(*    at the grain of the code (buffer ring, filled / active locations,      *)
(*    compare, purgeConsumedLocation, purgeBuffers, buildSample, Push, Pop,  *)
(*    Flush) on the modulus M, run in lock step with the session.  TLC       *)
(*    checks the normative predicates on what it emits, exhaustively for     *)
(*    small streams.  Impl = "pinned" is the code of the pinned tree (the    *)
(*    documented counterexample).  Repairs, named:                           *)
(*      A  purgeConsumedLocation releases the whole consumed location, not   *)
(*         one packet (as is, filled.head lags behind active.head after a    *)
(*         multi-packet sample and stale packets stay in the buffer);        *)
(*      B  purgeBuffers does not advance active/filled a second time when    *)
(*         buildSample has already dropped a run itself (as is, filled.head  *)
(*         can overtake filled.tail and the loop walks the whole ring);      *)
(*      b  (weaker form of B, keeps the skipping of one more packet after a  *)
(*         dropped run that existing tests of the package pin down)          *)
(*         purgeBuffers stops when buildSample has emptied filled;           *)
(*      C  the builder remembers the sequence number up to which it has      *)
(*         consumed or dropped and ignores older packets (as is, once its    *)
(*         locations are empty it has no memory and a late or duplicated     *)
(*         packet is emitted again / out of order).                          *)
(*    Impl = "fixAB" has A and B, Impl = "fixABC" all three, and so on for   *)
(*    every subset; Impl = "current" has CurrentRepairs, the repairs the     *)
(*    repaired samplebuilder.go carries.                                     *)
(*                                                                           *)
(* Algo = "none" only generates sessions (used with -simulate and the        *)
(* seeded Pick below to sample long streams for the replay).                 *)
EXTENDS SampleBuilderOps, Randomization

CONSTANTS M,            \* sequence-number modulus
          MaxPackets,   \* stream length bound
          MinPackets,   \* (sampling) do not stop adding frames before this many packets
          FrameSizes,   \* packets per frame
          SameTs,       \* TRUE: a frame may share the timestamp of the previous one
          MaxLates,     \* values of maxLate
          Delays,       \* values of the maximal timestamp distance (in frame steps); 0 = WithMaxTimeDelay off
          StartBacks,   \* first sequence number = M - startBack
          MarkerModes,  \* subset of BOOLEAN: last packet of a frame is a partition tail
          HeadModes,    \* subset of BOOLEAN: TRUE = every packet is a partition head (as H.264 single-NAL packets are), FALSE = only the first of a frame
          Windows,      \* network reordering bounds: a packet overtakes fewer than `window` older undelivered packets
          Modes,        \* subset of {"clean", "lossy", "dup", "pops", "all"}: what may happen besides reordering
          MaxLoss, MaxDup, MaxPopCalls,
          MaxMidFlush,  \* Flush calls before the last push (the final Flush is always made)
          Eagers,       \* subset of BOOLEAN: the receiver calls Pop until nil after every Push (the usual way to use it)
          Holds,        \* (sampling) stream positions of a straggler, 0 = none: that packet is kept back in the network
          HoldFors,     \* (sampling) ... until so many later packets have been delivered
          Situations,   \* TRUE: arrivals carry the situation they were pushed in (labels of failure classes); FALSE saves states
          Algo,         \* "none" | "abstract" | "ring"
          Impl,         \* "pinned" | "current" (CurrentRepairs) | "fixA" ... "fixABC" (any subset of the repairs)
          Sampling      \* TRUE: every choice is one seeded random draw (for -simulate)

VARIABLES phase, par, frames, pkts, script, pending, nextIdx, sent, nloss, ndup, npop, nflush, sb, emitted, pushed, premOK, bad,
          since, poppedSince   \* pushed since the last Flush; Pop called on them

vars == <<phase, par, frames, pkts, script, pending, nextIdx, sent, nloss, ndup, npop, nflush, sb, emitted, pushed, premOK, bad, since, poppedSince>>

\* which of the repairs A, B, C (see the header) the modelled implementation has
CurrentRepairs == {"A", "b", "C"}
Repairs == CASE Impl = "pinned"  -> {}
             [] Impl = "current" -> CurrentRepairs
             [] Impl = "fixA" -> {"A"} [] Impl = "fixB" -> {"B"} [] Impl = "fixC" -> {"C"}
             [] Impl = "fixAB" -> {"A", "B"} [] Impl = "fixAC" -> {"A", "C"} [] Impl = "fixBC" -> {"B", "C"}
             [] Impl = "fixABC" -> {"A", "B", "C"}
             [] Impl = "fixAbC" -> {"A", "b", "C"} [] Impl = "fixbC" -> {"b", "C"}
Has(r) == r \in Repairs

Pick(S) == IF Sampling THEN RandomSubset(1, S) ELSE S
\* in sampling mode: true with probability num/10
Chance(num) == \E r \in Pick(1..10) : r <= num

\* ---- the ring-buffer algorithm, transcribed ------------------------------------------------------
NilPkt  == [tag |-> 0, seq |-> 0, ts |-> 0, head |-> FALSE, tail |-> FALSE, frame |-> 0, sit |-> ""]
ZeroLoc == [h |-> 0, t |-> 0]
SB0 == [buf |-> IF Algo = "ring" THEN [i \in 0..(M - 1) |-> NilPkt] ELSE <<>>,
        filled |-> ZeroLoc, active |-> ZeroLoc, prep |-> <<>>, dropped |-> 0,
        floor |-> [valid |-> FALSE, seq |-> 0],      \* repair C only
        spun |-> FALSE]    \* ghost: some purgeBuffers call iterated more often than filled had positions

Empty(l)   == l.h = l.t
HasData(l) == l.h # l.t
\* seqnumDistance(head, tail): |int16(head - tail)|
Count(l) == LET d == (l.h - l.t + M) % M IN IF d >= M \div 2 THEN M - d ELSE d

\* sampleSequenceLocation.compare
Compare(l, pos) ==
  IF l.h = l.t THEN "void"
  ELSE IF (l.h < l.t /\ l.h <= pos /\ pos < l.t) \/ (l.h > l.t /\ (l.h <= pos \/ pos < l.t)) THEN "inside"
  ELSE IF (l.h - pos + M) % M <= (pos - l.t + M) % M THEN "before"
  ELSE "after"

Release(s, i) == [s EXCEPT !.buf[i] = NilPkt]

\* purgeConsumedLocation: releases filled.head if it lies before (or, forced, inside) `consume` --
\* ONE packet per call.  After a sample of k packets filled.head therefore lags behind active.head.
\* Repair A: release every packet of filled that lies before/inside the consumed location.
RECURSIVE PurgeConsumedLocation(_, _, _)
PurgeConsumedLocation(s, consume, force) ==
  IF ~HasData(s.filled) THEN s
  ELSE LET c == Compare(consume, s.filled.h) IN
       IF c = "before" \/ (c = "inside" /\ force)
       THEN LET s1 == [Release(s, s.filled.h) EXCEPT !.filled.h = (s.filled.h + 1) % M]
            IN IF Has("A") THEN PurgeConsumedLocation(s1, consume, force) ELSE s1
       ELSE s
PurgeConsumedBuffers(s) == PurgeConsumedLocation(s, s.active, FALSE)

\* ring positions h, h+1, ..., t-1
RingLen(l) == (l.t - l.h + M) % M
RingAt(l, k) == (l.h + k - 1) % M

TooOld(s, l, delay) ==
  IF delay = 0 THEN FALSE
  ELSE LET ks == {k \in 1..RingLen(l) : s.buf[RingAt(l, k)].tag # 0}
           \* the tail scan runs from tail-1 down to head+1 (it never looks at head itself)
           kt == {k \in ks : k >= 2}
       IN IF ks = {} \/ kt = {} THEN FALSE
          ELSE LET kh == CHOOSE k \in ks : \A j \in ks : k <= j
                   kl == CHOOSE k \in kt : \A j \in kt : k >= j
                   d  == s.buf[RingAt(l, kh)].ts - s.buf[RingAt(l, kl)].ts
               IN (IF d < 0 THEN -d ELSE d) > delay

\* repair C bookkeeping: the position up to which packets were consumed or given up only moves forward
Raise(fl, pos) == IF Has("C") /\ (~fl.valid \/ SeqBefore(fl.seq, pos, M)) THEN [valid |-> TRUE, seq |-> pos] ELSE fl

\* the scan of buildSample: walks from active.head while packets are present and not after `active`
RECURSIVE Scan(_, _, _)
Scan(s, i, k) ==
  IF k > M \/ s.buf[i].tag = 0 \/ Compare(s.active, i) = "after" THEN ZeroLoc
  ELSE IF s.buf[i].tail THEN [h |-> s.active.h, t |-> (i + 1) % M]
  ELSE IF s.buf[i].ts # s.buf[s.active.h].ts THEN [h |-> s.active.h, t |-> i]
  ELSE Scan(s, (i + 1) % M, k + 1)

TagsOf(s, l) == [k \in 1..RingLen(l) |-> s.buf[RingAt(l, k)].tag]

\* buildSample(purgingBuffers); returns the new state and whether a sample was appended to `prep`
BuildSample(s0, purging) ==
  LET s1 == IF Empty(s0.active) THEN [s0 EXCEPT !.active = s0.filled] ELSE s0 IN
  IF Empty(s1.active) THEN [s |-> s1, built |-> FALSE]
  ELSE
  LET s2 == IF Compare(s1.filled, s1.active.t) = "inside" THEN [s1 EXCEPT !.active.t = s1.filled.t] ELSE s1
      consume == Scan(s2, s2.active.h, 1)
  IN
  IF Empty(consume) THEN [s |-> s2, built |-> FALSE]
  ELSE IF ~purging /\ s2.buf[consume.t].tag = 0 THEN [s |-> s2, built |-> FALSE]
  ELSE
  LET s3 == [s2 EXCEPT !.active.h = consume.t, !.floor = Raise(s2.floor, consume.t)] IN
  IF ~s3.buf[consume.h].head
  THEN \* the run does not start at a partition head: it is dropped
       LET s4 == [s3 EXCEPT !.dropped = (s3.dropped + Count(consume)) % M]
       IN [s |-> PurgeConsumedBuffers(PurgeConsumedLocation(s4, consume, TRUE)), built |-> FALSE]
  ELSE LET s4 == [s3 EXCEPT !.prep = Append(s3.prep, [tags |-> TagsOf(s3, consume), sit |-> s3.buf[consume.h].sit]),
                            !.dropped = 0]
       IN [s |-> PurgeConsumedBuffers(PurgeConsumedLocation(s4, consume, TRUE)), built |-> TRUE]

\* purgeBuffers(flush)
RECURSIVE PurgeLoopN(_, _, _, _, _)
PurgeLoop(s, flush, delay, maxLate) == PurgeLoopN(s, flush, delay, maxLate, RingLen(s.filled))
PurgeLoopN(s0, flush, delay, maxLate, budget) ==
  IF ~((TooOld(s0, s0.filled, delay) \/ Count(s0.filled) > maxLate \/ flush) /\ HasData(s0.filled)) THEN s0
  ELSE
  LET s == IF budget <= 0 THEN [s0 EXCEPT !.spun = TRUE] ELSE s0 IN
  LET sA == IF Empty(s.active) THEN [s EXCEPT !.active = s.filled] ELSE s IN
  IF HasData(sA.active) /\ sA.active.h = sA.filled.h
  THEN LET r == BuildSample(sA, TRUE) IN
       IF r.built THEN PurgeLoopN(r.s, flush, delay, maxLate, budget - 1)
       ELSE IF Has("b") /\ ~HasData(r.s.filled)
            THEN r.s   \* repair b: buildSample has dropped what was left; nothing to advance over
       ELSE IF Has("B") /\ r.s.filled.h # sA.filled.h
            THEN \* repair B: buildSample has already dropped the run and moved filled.head itself
                 PurgeLoopN(r.s, flush, delay, maxLate, budget - 1)
            ELSE \* "could not build the sample so drop it" -- also taken when buildSample dropped a run
                 \* that did not start at a head and advanced both locations on its own
                 LET sB == [r.s EXCEPT !.active.h = (r.s.active.h + 1) % M, !.dropped = (r.s.dropped + 1) % M]
                     sC == [Release(sB, sB.filled.h) EXCEPT !.filled.h = (sB.filled.h + 1) % M,
                                                            !.floor = Raise(sB.floor, (sB.filled.h + 1) % M)]
                 IN PurgeLoopN(sC, flush, delay, maxLate, budget - 1)
  ELSE LET sC == [Release(sA, sA.filled.h) EXCEPT !.filled.h = (sA.filled.h + 1) % M,
                                                      !.floor = Raise(sA.floor, (sA.filled.h + 1) % M)]
       IN PurgeLoopN(sC, flush, delay, maxLate, budget - 1)

PurgeBuffers(s, flush, delay, maxLate) == PurgeLoop(PurgeConsumedBuffers(s), flush, delay, maxLate)

DoPush(s, p, delay, maxLate) ==
  IF Has("C") /\ s.floor.valid /\ p.seq # s.floor.seq /\ ~SeqBefore(s.floor.seq, p.seq, M)
  THEN s          \* repair C: older than what was already consumed or given up -- ignored
  ELSE
  LET s1 == [s EXCEPT !.buf[p.seq] = p]
      c  == Compare(s1.filled, p.seq)
      s2 == CASE c = "void"   -> [s1 EXCEPT !.filled = [h |-> p.seq, t |-> (p.seq + 1) % M]]
              [] c = "before" -> [s1 EXCEPT !.filled.h = p.seq]
              [] c = "after"  -> [s1 EXCEPT !.filled.t = (p.seq + 1) % M]
              [] OTHER        -> s1
  IN PurgeBuffers(s2, FALSE, delay, maxLate)

\* Pop: returns the new state and the popped sample [tags, sit] (NoSample for nil)
NoSample == [tags |-> <<>>, sit |-> ""]
DoPop(s) ==
  LET r == BuildSample(s, FALSE).s IN
  IF r.prep = <<>> THEN [s |-> r, out |-> NoSample]
  ELSE [s |-> [r EXCEPT !.prep = Tail(r.prep)], out |-> Head(r.prep)]

\* ---- the session generator -----------------------------------------------------------------------
\* History is kept in summarised form so that exhaustive runs can merge states: `pushed` (set of tags
\* that reached the builder), `premOK` (every push so far respected the reordering premise), `bad`
\* (names of normative predicates that failed when a sample came out -- evaluated at that moment with
\* the normative operators, on the history so far).  The literal script is excluded from the VIEW of
\* exhaustive runs (mcview); it is what gets printed for the replay.
NPk == Len(pkts)
Min(a, b) == IF a < b THEN a ELSE b
Max(a, b) == IF a > b THEN a ELSE b
FrameTotal == LET RECURSIVE Sum(_)
                  Sum(k) == IF k = 0 THEN 0 ELSE frames[k].size + Sum(k - 1)
              IN Sum(Len(frames))

\* packets of the stream from the frame list
MkPkts ==
  LET RECURSIVE Build(_, _, _, _)
      Build(f, acc, ts, idx) ==
        IF f > Len(frames) THEN acc
        ELSE LET fr  == frames[f]
                 ts1 == IF f > 1 /\ fr.same THEN ts ELSE ts + 1
                 new == [k \in 1..fr.size |->
                           [tag |-> idx + k, seq |-> (M - par.startBack + idx + k - 1) % M, ts |-> ts1,
                            head |-> (k = 1 \/ par.heads), tail |-> par.markers /\ k = fr.size, frame |-> f, sit |-> ""]]
             IN Build(f + 1, acc \o new, ts1, idx + fr.size)
  IN Build(1, <<>>, 0, 0)

Init == /\ phase = "setup"
        /\ par = [maxLate |-> 0, delay |-> 0, startBack |-> 0, markers |-> TRUE, window |-> 1, mode |-> "clean",
                 eager |-> FALSE, hold |-> 0, holdFor |-> 0, heads |-> FALSE]
        /\ frames = <<>> /\ pkts = <<>> /\ script = <<>> /\ pending = {} /\ nextIdx = 1 /\ sent = {}
        /\ nloss = 0 /\ ndup = 0 /\ npop = 0 /\ nflush = 0 /\ sb = SB0 /\ emitted = <<>>
        /\ pushed = {} /\ premOK = TRUE /\ bad = {}
        /\ since = {} /\ poppedSince = FALSE
        /\ TLCSet(1, {})             \* per-worker register: failure classes already printed

Setup ==
  /\ phase = "setup"
  /\ \E ml \in Pick(MaxLates), d \in Pick(Delays), b \in Pick(StartBacks), mk \in Pick(MarkerModes),
        w \in Pick(Windows), md \in Pick(Modes), eg \in Pick(Eagers), h \in Pick(Holds), hf \in Pick(HoldFors),
        hd \in Pick(HeadModes) :
        par' = [maxLate |-> ml, delay |-> d, startBack |-> b, markers |-> mk, window |-> w, mode |-> md,
                eager |-> eg, hold |-> h, holdFor |-> hf, heads |-> hd]
  /\ phase' = "frames"
  /\ UNCHANGED <<frames, pkts, script, pending, nextIdx, sent, nloss, ndup, npop, nflush, sb, emitted, pushed, premOK, bad, since, poppedSince>>

\* frames sharing a timestamp: in exhaustive runs whenever SameTs, when sampling only in "all" sessions
SameChoices == IF ~SameTs THEN {FALSE}
               ELSE IF ~Sampling THEN BOOLEAN
               ELSE IF par.mode # "all" THEN {FALSE} ELSE {r <= 2 : r \in RandomSubset(1, 1..10)}
\* start positions for the sampled sessions: the stream begins 0..39 packets before the wrap, or far from it
SimStartBacks == (0..39) \cup {30000}

AddFrame ==
  /\ phase = "frames"
  /\ \E size \in Pick(FrameSizes), same \in SameChoices :
        /\ FrameTotal + size <= MaxPackets
        /\ frames' = Append(frames, [size |-> size, same |-> same /\ frames # <<>>])
  /\ UNCHANGED <<phase, par, pkts, script, pending, nextIdx, sent, nloss, ndup, npop, nflush, sb, emitted, pushed, premOK, bad, since, poppedSince>>

EndFrames ==
  /\ phase = "frames" /\ frames # <<>>
  /\ Sampling => (FrameTotal >= MinPackets /\ (FrameTotal + 3 > MaxPackets \/ Chance(1)))
  /\ pkts' = MkPkts
  /\ pending' = 1..Min(par.window, FrameTotal) /\ nextIdx' = Min(par.window, FrameTotal) + 1 /\ sent' = {}
  /\ phase' = "arrive"
  /\ UNCHANGED <<par, frames, script, nloss, ndup, npop, nflush, sb, emitted, pushed, premOK, bad, since, poppedSince>>

\* The network holds at most `window` packets: `pending` is the set of the (up to) `window` oldest
\* packets not yet delivered or lost, any of which may come next -- a packet is thus overtaken only by
\* packets that entered the network while fewer than `window` older ones were still under way.
\* sampling only: a straggler stays in the network until holdFor later packets have been delivered
HoldActive == /\ par.hold \in pending /\ pending # {par.hold}
              /\ Cardinality({i \in pushed : i > par.hold}) < par.holdFor
Candidates == IF HoldActive THEN pending \ {par.hold} ELSE pending
Lowest == CHOOSE i \in Candidates : \A j \in Candidates : i <= j
\* sampling: mostly in order, otherwise any pending packet
DeliverChoices == IF ~Sampling THEN pending
                  ELSE IF Chance(6) THEN {Lowest} ELSE RandomSubset(1, Candidates)
\* take i out of the network and let the next packets of the stream in
TakeOut(i) ==
  LET p1 == pending \ {i}
      hi == Min(nextIdx + (par.window - Cardinality(p1)) - 1, NPk)
  IN /\ pending' = p1 \cup (nextIdx..hi)
     /\ nextIdx' = Max(nextIdx, hi + 1)
MayLose == par.mode \in {"lossy", "all"}
MayDup  == par.mode \in {"dup", "all"}
MayPop  == par.mode \in {"pops", "all"}
Log(x) == Append(script, x)

Vec == [maxLate |-> par.maxLate, delay |-> par.delay, startBack |-> par.startBack, markers |-> par.markers,
        window |-> par.window, mode |-> par.mode, eager |-> par.eager, hold |-> par.hold, heads |-> par.heads,
        frames |-> [k \in DOMAIN frames |-> frames[k].size],
        same |-> [k \in DOMAIN frames |-> frames[k].same], script |-> script]

\* ---- judging a sample at the moment it comes out, with the normative operators -------------------
Sample(tags) == [tags |-> tags, wf |-> TRUE, at |-> 1]
\* the history as the normative operators want it, read off the script (scr: the script including the
\* Pop call that returns the samples being judged)
PushesOf(scr) == SelectSeq([k \in 1..Len(scr) |-> [tag |-> scr[k] + 1, at |-> k]], LAMBDA r : r.tag >= 1)
\* a failure's label: shape, situation in which the sample's first packet arrived, class of maxLate
CtxLabel(sit) == sit \o ":" \o WindowClass(par.maxLate)
Failing(prev, tags, scr, sit) ==
  LET s   == [tags |-> tags, wf |-> TRUE, at |-> Len(scr)]     \* comes out of the call at the end of scr
      all == Append(prev, s)
  IN
  (IF ContiguousSameTs(pkts, PushesOf(scr), s, M) THEN {} ELSE {<<"ContiguousSameTs", "">>})
  \cup (IF StartsAtHead(pkts, s) THEN {} ELSE {<<"StartsAtHead", "">>})
  \cup (IF prev = <<>> \/ InOrder(pkts, prev[Len(prev)], s, M) THEN {}
        ELSE {<<"InOrder", ":" \o InOrderShape(pkts, all, Len(all), M) \o ":" \o CtxLabel(sit)>>})
  \cup (IF ~ReusesPacket(all, Len(all)) THEN {}
        ELSE {<<"NoPacketTwice", ":" \o ReuseShape(all, Len(all)) \o ":" \o CtxLabel(sit)>>})

RECURSIVE Judge(_, _, _)
\* prev: samples so far, new: what comes out now, a sequence of [tags, sit]; returns [em, bad]
Judge(prev, new, scr) ==
  IF new = <<>> THEN [em |-> prev, bad |-> {}]
  ELSE LET r == Judge(Append(prev, Sample(Head(new).tags)), Tail(new), scr)
       IN [em |-> r.em, bad |-> Failing(prev, Head(new).tags, scr, Head(new).sit) \cup r.bad]

\* the legality guards of the normative machine: a run of pushed, unconsumed packets with one
\* timestamp, starting at a partition head, after the previous sample
Consumed == AllTags(emitted)
LegalRuns ==
  {r \in (1..NPk) \X (1..NPk) :
     /\ r[1] <= r[2]
     /\ \A t \in r[1]..r[2] : t \in pushed /\ t \notin Consumed /\ pkts[t].ts = pkts[r[1]].ts
     /\ pkts[r[1]].head
     /\ emitted # <<>> =>
          LET lt == emitted[Len(emitted)].tags IN SeqBefore(pkts[lt[Len(lt)]].seq, pkts[r[1]].seq, M)}
RunTags(r) == [k \in 1..(r[2] - r[1] + 1) |-> r[1] + k - 1]

\* Pop until nil (ring): the sequence of samples [tags, sit] that come out
RECURSIVE PopAllRing(_, _)
PopAllRing(s, acc) ==
  LET r == DoPop(s) IN
  IF r.out.tags = <<>> THEN [s |-> r.s, out |-> acc] ELSE PopAllRing(r.s, Append(acc, r.out))

\* a failure class (predicate:shape, with / without duplicates pushed so far) seen for the first
\* time on this path is printed with the script that leads to it: a candidate for the replay
Emit(new) ==
  LET j == Judge(emitted, new, script') IN
  /\ emitted' = j.em /\ bad' = bad \cup j.bad
  /\ \A c \in j.bad \ bad :
        LET dups == \E a \in 1..Len(script'), b \in 1..Len(script') : a < b /\ script'[a] >= 0 /\ script'[a] = script'[b]
            k == <<c, dups>> IN
        \/ k \in TLCGet(1)          \* this worker has printed an example of the class already
        \/ /\ TLCSet(1, TLCGet(1) \cup {k})
           /\ PrintT(<<"VERIF_CLASS", ToJson([class |-> c[1] \o c[2], dups |-> dups, vec |-> [Vec EXCEPT !.script = script']])>>)

\* every arrival carries the situation in which it was pushed (the real driver numbers the arrivals in
\* the payload, so a sample names the very pushes it was built from)
Arrival(i) == IF ~Situations THEN pkts[i] ELSE
              [pkts[i] EXCEPT !.sit = PushSituation(pkts, since \ AllTags(emitted), i, poppedSince, M)
                                      \o (IF nflush > 0 THEN "/after-a-flush" ELSE "/no-flush-yet")]
\* Push of packet i; an eager receiver pops until nil right after it
PushStep(i) ==
  /\ pushed' = pushed \cup {i}
  /\ since' = IF Situations THEN since \cup {i} ELSE since
  /\ poppedSince' = (Situations /\ (poppedSince \/ par.eager))
  /\ IF par.eager
     THEN /\ script' = Append(Append(script, i - 1), -1)
          /\ IF Algo = "ring"
             THEN LET r == PopAllRing(DoPush(sb, Arrival(i), par.delay, par.maxLate), <<>>) IN sb' = r.s /\ Emit(r.out)
             ELSE UNCHANGED <<sb, emitted, bad>>
     ELSE /\ script' = Log(i - 1)
          /\ sb' = IF Algo = "ring" THEN DoPush(sb, Arrival(i), par.delay, par.maxLate) ELSE sb
          /\ UNCHANGED <<emitted, bad>>

Deliver ==
  /\ phase = "arrive" /\ pending # {}
  /\ \E i \in DeliverChoices :
        /\ PushStep(i)
        /\ TakeOut(i) /\ sent' = sent \cup {i}
        /\ premOK' = IF Algo = "none" THEN premOK ELSE (premOK /\ ArrivalOK(Anchors(pkts), pushed, i, par.maxLate))
  /\ UNCHANGED <<phase, par, frames, pkts, nloss, ndup, npop, nflush>>

Lose ==
  /\ phase = "arrive" /\ pending # {} /\ nloss < MaxLoss /\ MayLose
  /\ Sampling => Chance(1)
  /\ \E i \in Pick(pending) : TakeOut(i)
  /\ nloss' = nloss + 1
  /\ UNCHANGED <<phase, par, frames, pkts, script, sent, ndup, npop, nflush, sb, emitted, pushed, premOK, bad, since, poppedSince>>

\* a packet that was delivered arrives once more (now or much later)
Dup ==
  /\ phase = "arrive" /\ ndup < MaxDup /\ MayDup /\ sent # {}
  /\ Sampling => Chance(1)
  /\ \E i \in Pick(sent) : PushStep(i)
  /\ ndup' = ndup + 1
  /\ UNCHANGED <<phase, par, frames, pkts, pending, nextIdx, sent, nloss, npop, nflush, premOK>>

PopOne ==
  /\ phase = "arrive" /\ npop < MaxPopCalls /\ MayPop
  /\ Sampling => Chance(2)
  /\ script' = Log(-3)
  /\ npop' = npop + 1
  /\ CASE Algo = "ring" ->
            LET r == DoPop(sb) IN sb' = r.s /\ Emit(IF r.out.tags = <<>> THEN <<>> ELSE <<r.out>>)
       [] Algo = "abstract" ->
            /\ sb' = sb
            /\ \/ Emit(<<>>)                                                \* Pop may return nil
               \/ \E r \in LegalRuns : Emit(<<[tags |-> RunTags(r), sit |-> "abstract"]>>)
       [] OTHER -> UNCHANGED <<sb, emitted, bad>>
  /\ poppedSince' = (Situations /\ (poppedSince \/ since # {}))
  /\ UNCHANGED <<phase, par, frames, pkts, pending, nextIdx, sent, nloss, ndup, nflush, pushed, premOK, since>>

PopAll ==
  /\ phase \in {"arrive", "drain"}
  /\ phase = "arrive" => npop < MaxPopCalls /\ MayPop /\ Algo # "abstract" /\ (Sampling => Chance(2))
  /\ script' = Log(-1)
  /\ npop' = IF phase = "arrive" THEN npop + 1 ELSE npop
  /\ CASE Algo = "ring" ->
            LET r == PopAllRing(sb, <<>>) IN sb' = r.s /\ Emit(r.out)
       [] Algo = "abstract" ->   \* drain: one more legal sample, or stop
            /\ sb' = sb
            /\ \/ Emit(<<>>)
               \/ \E r \in LegalRuns : Emit(<<[tags |-> RunTags(r), sit |-> "abstract"]>>)
       [] OTHER -> UNCHANGED <<sb, emitted, bad>>
  /\ phase' = IF phase = "drain" /\ (Algo # "abstract" \/ emitted' = emitted) THEN "done" ELSE phase
  /\ poppedSince' = (Situations /\ (poppedSince \/ since # {}))
  /\ UNCHANGED <<par, frames, pkts, pending, nextIdx, sent, nloss, ndup, nflush, pushed, premOK, since>>

Flush ==
  /\ phase = "arrive" /\ pending = {}
  /\ script' = Log(-2)
  /\ sb' = IF Algo = "ring" THEN PurgeBuffers(sb, TRUE, par.delay, par.maxLate) ELSE sb
  /\ phase' = "drain"
  /\ since' = {} /\ poppedSince' = FALSE
  /\ UNCHANGED <<par, frames, pkts, pending, nextIdx, sent, nloss, ndup, npop, nflush, emitted, pushed, premOK, bad>>

\* Flush while packets are still under way (everything buffered is forced out; the stream goes on)
MidFlush ==
  /\ phase = "arrive" /\ pending # {} /\ pushed # {} /\ nflush < MaxMidFlush /\ MayPop /\ Algo # "abstract"
  /\ Sampling => Chance(1)
  /\ script' = Log(-2)
  /\ nflush' = nflush + 1
  /\ sb' = IF Algo = "ring" THEN PurgeBuffers(sb, TRUE, par.delay, par.maxLate) ELSE sb
  /\ since' = {} /\ poppedSince' = FALSE
  /\ UNCHANGED <<phase, par, frames, pkts, pending, nextIdx, sent, nloss, ndup, npop, emitted, pushed, premOK, bad>>

Next == Setup \/ AddFrame \/ EndFrames \/ Deliver \/ Lose \/ Dup \/ PopOne \/ PopAll \/ MidFlush \/ Flush

Spec == Init /\ [][Next]_vars

\* ---- what TLC checks -----------------------------------------------------------------------------
mcview == <<phase, par, frames, pkts, pending, nextIdx, sent, nloss, ndup, npop, nflush, sb, emitted, pushed, premOK, bad, since, poppedSince>>
\* `bad` holds <<predicate, label>> pairs (label: shape, situation, window class; "" when there is none)
Failed(pred) == \E c \in bad : c[1] = pred
ModelContiguousSameTs == ~Failed("ContiguousSameTs")
ModelStartsAtHead     == ~Failed("StartsAtHead")
ModelInOrder          == ~Failed("InOrder")
ModelNoPacketTwice    == ~Failed("NoPacketTwice")

\* the completeness premise of SampleBuilderOps, from the summarised history: npop counts Pop calls
\* made before the final Flush, nflush earlier Flush calls, nloss / ndup losses and duplicates, premOK
\* the per-push ArrivalOK
ModelPremise == /\ StreamPremise(pkts, M) /\ par.delay = 0
                /\ nloss = 0 /\ ndup = 0 /\ npop = 0 /\ nflush = 0 /\ premOK /\ ~par.eager
ModelComplete == (phase = "done" /\ ModelPremise) => CompleteAfterFlush(pkts, emitted)

\* the locations of the ring stay well formed: filled.head never overtakes filled.tail
\* ... not even inside one purgeBuffers call (where the overtaken loop then walks the whole ring:
\* 2^16 iterations in pion, each scanning the ring again when WithMaxTimeDelay is on)
ModelFilledSane == Algo = "ring" => (RingLen(sb.filled) < M \div 2 /\ ~sb.spun)

\* ---- vectors for the replay ----------------------------------------------------------------------
EmitVec == (phase = "done") => PrintT(<<"VERIF_VEC", ToJson(Vec)>>)
\* exhaustive runs of the transcription: every finished session with what the model says comes out of
\* Pop, for the conformance replay (does pion emit exactly this?)
EmitDone == (phase = "done") => PrintT(<<"VERIF_DONE", ToJson([vec |-> Vec, out |-> [i \in DOMAIN emitted |-> emitted[i].tags]])>>)
=============================================================================
