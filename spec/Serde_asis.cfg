CONSTANTS
  Impl = "asis"
INIT Init
NEXT Next
INVARIANTS ModelRoundTrip
CHECK_DEADLOCK FALSE
