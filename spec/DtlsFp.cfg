INIT Init
NEXT Next
INVARIANTS MismatchNeverConnected NoDeliveryWithoutAuth EmitVec
CHECK_DEADLOCK FALSE
