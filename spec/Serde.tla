-------------------------------- MODULE Serde --------------------------------
(* Generative model for C38.  This is the weakest use of the technique: the  *)
(* specification does not model encoding/json; it contributes                *)
(*  (1) a field-level transcription of the HAND-WRITTEN codecs               *)
(*      - ICEServer.MarshalJSON / UnmarshalJSON with their presence/absence   *)
(*        cases over abstract JSON values,                                    *)
(*      - the String() / newX() / Marshal* / Unmarshal* tables of 20 enums,   *)
(*      - the dispatch of UnmarshalStatsJSON on "type" (and "kind"),          *)
(*      so that TLC checks Decode(Encode(v)) = v on the abstract domain and   *)
(*      pins down exactly where the code as it is deviates (AsIsFailures),    *)
(*  (2) the abstract domain {zero, nil, empty, typical, unusual} per field    *)
(*      of every covered type, which is what the Go driver instantiates.      *)
EXTENDS SerdeOps

CONSTANTS Impl     \* which variant ModelRoundTrip asserts: "intended" (holds) or "asis" (TLC exhibits a failure)
VARIABLES vec
vars == <<vec>>

\* ------------------------------------------------------------------ ICEServer (iceserver.go)
UrlsC == {"nil", "empty", "one", "many", "unusual"}
UserC == {"empty", "typ", "unusual"}
CredC == {"nil", "str", "emptystr", "unusualstr", "oauth", "oauthzero"}
TypeC == {"password", "oauth"}
\* the documented pairings: a string credential with type password, an OAuthCredential with type oauth
Consistent(c, t) == CASE c = "nil" -> TRUE
                      [] c \in {"oauth", "oauthzero"} -> t = "oauth"
                      [] OTHER -> t = "password"
IceVecs == {[fam |-> "iceserver", urls |-> u, user |-> n, cred |-> c, ctype |-> t] :
              u \in UrlsC, n \in UserC, c \in CredC, t \in TypeC}
IceSpace == {v \in IceVecs : Consistent(v.cred, v.ctype)}

Absent == [k |-> "absent"]
\* MarshalJSON: m["urls"] = s.URLs (a nil slice marshals as null); username only if != "";
\* credential only if != nil; credentialType always
IceEncode(v) ==
  [urls           |-> IF v.urls = "nil" THEN [k |-> "null"] ELSE [k |-> "array", c |-> v.urls],
   username       |-> IF v.user = "empty" THEN Absent ELSE [k |-> "string", c |-> v.user],
   credential     |-> CASE v.cred = "nil" -> Absent
                        [] v.cred \in {"oauth", "oauthzero"} -> [k |-> "object", c |-> v.cred]
                        [] OTHER -> [k |-> "string", c |-> v.cred],
   credentialType |-> [k |-> "string", c |-> v.ctype]]

Fail == [ok |-> FALSE]
\* iceserverUnmarshalFields, in the order of the code: urls, username, credentialType, credential
IceDecode(impl, j) ==
  LET urls == CASE j.urls.k = "absent" -> "empty"                       \* s.URLs = []string{}
                [] j.urls.k = "array"  -> j.urls.c
                [] j.urls.k = "null" /\ impl = "intended" -> "empty"    \* repair: treat null like absent
                [] OTHER -> "!"                                          \* val.([]any) fails: errInvalidICEServer
      user == CASE j.username.k = "absent" -> "empty"
                [] j.username.k = "string" -> j.username.c
                [] OTHER -> "!"
      ctyp == CASE j.credentialType.k = "absent" -> "password"
                [] j.credentialType.k = "string" /\ j.credentialType.c \in TypeC -> j.credentialType.c
                [] OTHER -> "!"
      cred == CASE j.credential.k = "absent" -> "nil"
                [] ctyp = "password" -> (IF j.credential.k = "string" THEN j.credential.c ELSE "map")  \* val as it is
                [] ctyp = "oauth" -> (IF j.credential.k = "object" THEN j.credential.c ELSE "!")
                [] OTHER -> "!"
  IN IF "!" \in {urls, user, ctyp, cred} THEN Fail
     ELSE [ok |-> TRUE, v |-> [fam |-> "iceserver", urls |-> urls, user |-> user, cred |-> cred, ctype |-> ctyp]]

\* semantic equality: a nil and an empty URL list are the same value
Canon(v) == IF v.urls = "nil" THEN [v EXCEPT !.urls = "empty"] ELSE v
IceRT(impl, v) == LET d == IceDecode(impl, IceEncode(v)) IN d.ok /\ Canon(d.v) = Canon(v)

\* ------------------------------------------------------------------ enums
(* name, codec (json: Marshal/UnmarshalJSON, text: Marshal/UnmarshalText, string: String()/newX only),  *)
(* unk: value 0 is the "Unknown" sentinel whose String() is ErrUnknownType ("unknown")     ,            *)
(* strict: the decoder returns an error for text it does not know, strs: String() of the declared     *)
(* values in iota order, dflt: index of the value a lenient decoder falls back to (0 = sentinel).     *)
E(name, codec, unk, strict, strs, dflt) ==
  [name |-> name, codec |-> codec, unk |-> unk, strict |-> strict, strs |-> strs, dflt |-> dflt]
Enums == {
  E("SDPType", "json", TRUE, TRUE, <<"offer", "pranswer", "answer", "rollback">>, 0),
  E("SignalingState", "string", TRUE, FALSE, <<"stable", "have-local-offer", "have-remote-offer",
      "have-local-pranswer", "have-remote-pranswer", "closed">>, 0),
  E("ICEConnectionState", "string", TRUE, FALSE, <<"new", "checking", "connected", "completed",
      "disconnected", "failed", "closed">>, 0),
  E("ICEGatheringState", "string", TRUE, FALSE, <<"new", "gathering", "complete">>, 0),
  E("ICETransportState", "text", TRUE, FALSE, <<"new", "checking", "connected", "completed", "failed",
      "disconnected", "closed">>, 0),
  E("ICERole", "text", TRUE, FALSE, <<"controlling", "controlled">>, 0),
  E("ICECandidateType", "text", TRUE, TRUE, <<"host", "srflx", "prflx", "relay">>, 0),
  E("ICEProtocol", "string", TRUE, TRUE, <<"udp", "tcp">>, 0),
  E("ICEComponent", "string", TRUE, FALSE, <<"rtp", "rtcp">>, 0),
  E("ICECredentialType", "json", FALSE, TRUE, <<"password", "oauth">>, 1),
  E("ICETransportPolicy", "json", FALSE, FALSE, <<"all", "relay", "nohost">>, 1),
  E("DTLSTransportState", "text", TRUE, FALSE, <<"new", "connecting", "connected", "closed", "failed">>, 0),
  E("SCTPTransportState", "string", TRUE, FALSE, <<"connecting", "connected", "closed">>, 0),
  E("DataChannelState", "text", TRUE, FALSE, <<"connecting", "open", "closing", "closed">>, 0),
  E("PeerConnectionState", "string", TRUE, FALSE, <<"new", "connecting", "connected", "disconnected",
      "failed", "closed">>, 0),
  E("BundlePolicy", "json", TRUE, FALSE, <<"balanced", "max-compat", "max-bundle">>, 0),
  E("RTCPMuxPolicy", "json", TRUE, FALSE, <<"negotiate", "require">>, 0),
  E("SDPSemantics", "json", FALSE, FALSE, <<"unified-plan", "plan-b", "unified-plan-with-fallback">>, 1),
  E("NetworkType", "string", TRUE, TRUE, <<"udp4", "udp6", "tcp4", "tcp6">>, 0),
  E("RTPTransceiverDirection", "string", TRUE, FALSE, <<"sendrecv", "sendonly", "recvonly", "inactive">>, 0) }

EnumByName(n) == CHOOSE e \in Enums : e.name = n
UnknownText == "unknown"          \* ErrUnknownType.Error()
\* declared values of an enum: index 0 = the sentinel (if it has one), 1..Len = the named values
EnumIdx(e) == (IF e.unk THEN {0} ELSE {}) \cup (1..Len(e.strs))
GoInt(e, i) == IF e.unk THEN i ELSE i - 1              \* the Go constant's numeric value
EnumEncode(e, i) == IF i = 0 THEN UnknownText ELSE e.strs[i]
EnumDecode(impl, e, s) ==
  IF \E i \in 1..Len(e.strs) : e.strs[i] = s
  THEN [ok |-> TRUE, i |-> CHOOSE i \in 1..Len(e.strs) : e.strs[i] = s]
  ELSE IF e.strict /\ ~(impl = "intended" /\ e.unk /\ s = UnknownText)
       THEN [ok |-> FALSE, i |-> e.dflt]
       ELSE [ok |-> TRUE, i |-> e.dflt]
\* the sentinel of a String()/newX() pair only has to come back as a value (SerdeOps)
EnumRT(impl, e, i) == LET d == EnumDecode(impl, e, EnumEncode(e, i)) IN
                      d.i = i /\ (d.ok \/ (e.codec = "string" /\ i = 0))
EnumVecs == UNION { {[fam |-> "enum", enum |-> e.name, codec |-> e.codec, i |-> i, go |-> GoInt(e, i),
                      sentinel |-> (i = 0), text |-> EnumEncode(e, i)] : i \in EnumIdx(e)} : e \in Enums }
\* facts about the tables
EnumTableFacts == \A e \in Enums :
  /\ \A i, j \in 1..Len(e.strs) : e.strs[i] = e.strs[j] => i = j       \* String() is injective on the named values
  /\ \A i \in 1..Len(e.strs) : e.strs[i] # UnknownText
  /\ e.dflt \in EnumIdx(e)

\* ------------------------------------------------------------------ UnmarshalStatsJSON (stats.go)
S(go, tag, kind, enums) == [go |-> go, tag |-> tag, kind |-> kind, enums |-> enums]
\* Go type, its "type" tag, its "kind" where the decoder dispatches on it, enum-typed fields with a text codec
StatsTypes == {
  S("CodecStats", "codec", "", {}), S("InboundRTPStreamStats", "inbound-rtp", "", {}),
  S("OutboundRTPStreamStats", "outbound-rtp", "", {}), S("RemoteInboundRTPStreamStats", "remote-inbound-rtp", "", {}),
  S("RemoteOutboundRTPStreamStats", "remote-outbound-rtp", "", {}), S("RTPContributingSourceStats", "csrc", "", {}),
  S("AudioSourceStats", "media-source", "audio", {}), S("VideoSourceStats", "media-source", "video", {}),
  S("AudioPlayoutStats", "media-playout", "", {}), S("PeerConnectionStats", "peer-connection", "", {}),
  S("DataChannelStats", "data-channel", "", {"DataChannelState"}), S("MediaStreamStats", "stream", "", {}),
  S("SenderAudioTrackAttachmentStats", "track", "audio", {}), S("SenderVideoTrackAttachmentStats", "track", "video", {}),
  S("AudioSenderStats", "sender", "audio", {}), S("VideoSenderStats", "sender", "video", {}),
  S("AudioReceiverStats", "receiver", "audio", {}), S("VideoReceiverStats", "receiver", "video", {}),
  S("TransportStats", "transport", "", {"ICERole", "DTLSTransportState", "ICETransportState"}),
  S("ICECandidatePairStats", "candidate-pair", "", {}),
  S("ICECandidateStats", "local-candidate", "", {"ICECandidateType"}),
  S("ICECandidateStats", "remote-candidate", "", {"ICECandidateType"}),
  S("CertificateStats", "certificate", "", {}), S("SCTPTransportStats", "sctp-transport", "", {}) }

ByKind(kind, a, v) == CASE kind = "audio" -> a [] kind = "video" -> v [] OTHER -> "!"
\* the switch of UnmarshalStatsJSON and of the four kind-dispatching helpers
Dispatch(tag, kind) ==
  CASE tag = "codec" -> "CodecStats" [] tag = "inbound-rtp" -> "InboundRTPStreamStats"
    [] tag = "outbound-rtp" -> "OutboundRTPStreamStats" [] tag = "remote-inbound-rtp" -> "RemoteInboundRTPStreamStats"
    [] tag = "remote-outbound-rtp" -> "RemoteOutboundRTPStreamStats" [] tag = "csrc" -> "RTPContributingSourceStats"
    [] tag = "media-source" -> ByKind(kind, "AudioSourceStats", "VideoSourceStats")
    [] tag = "media-playout" -> "AudioPlayoutStats" [] tag = "peer-connection" -> "PeerConnectionStats"
    [] tag = "data-channel" -> "DataChannelStats" [] tag = "stream" -> "MediaStreamStats"
    [] tag = "track" -> ByKind(kind, "SenderAudioTrackAttachmentStats", "SenderVideoTrackAttachmentStats")
    [] tag = "sender" -> ByKind(kind, "AudioSenderStats", "VideoSenderStats")
    [] tag = "receiver" -> ByKind(kind, "AudioReceiverStats", "VideoReceiverStats")
    [] tag = "transport" -> "TransportStats" [] tag = "candidate-pair" -> "ICECandidatePairStats"
    [] tag \in {"local-candidate", "remote-candidate"} -> "ICECandidateStats"
    [] tag = "certificate" -> "CertificateStats" [] tag = "sctp-transport" -> "SCTPTransportStats"
    [] OTHER -> "!"
\* fill: how the fields other than the discriminators are populated (mix = seeded per-field choice)
Fills == {"zero", "typ", "extreme", "mix"}
StatsVecs == {[fam |-> "stats", gotype |-> s.go, tag |-> s.tag, kind |-> s.kind, fill |-> f] : s \in StatsTypes, f \in Fills}
\* a stats value round-trips iff the dispatch finds its type again and its enum-typed fields do; with
\* fill "zero" those fields hold the sentinel (the struct-tag-driven fields are not modelled)
StatsRT(impl, v) ==
  LET s == CHOOSE s \in StatsTypes : s.go = v.gotype /\ s.tag = v.tag IN
  /\ Dispatch(v.tag, v.kind) = v.gotype
  /\ v.fill = "zero" => \A n \in s.enums : EnumRT(impl, EnumByName(n), 0)

\* ------------------------------------------------------------------ struct-tag-driven types: domain only
StrC == {"empty", "typ", "unusual"}
SdescVecs == {[fam |-> "sdesc", type |-> i, sdp |-> s] : i \in 0..4, s \in StrC}       \* type 0 = SDPTypeUnknown
SdescRT(impl, v) == EnumRT(impl, EnumByName("SDPType"), v.type)
PtrStrC == {"nil", "empty", "typ", "unusual"}
CandVecs == {[fam |-> "candinit", cand |-> c, mid |-> m, mline |-> l, ufrag |-> u] :
               c \in StrC, m \in PtrStrC, l \in {"nil", "zero", "typ", "max"}, u \in {"nil", "empty", "typ"}}
CertVecs == {[fam |-> "cert", key |-> k, tpl |-> t] :
               k \in {"ecdsa-p256", "ecdsa-p384", "rsa-2048"}, t \in {"generated", "custom"}}

Space == IceSpace \cup EnumVecs \cup StatsVecs \cup SdescVecs \cup CandVecs \cup CertVecs

RT(impl, v) == CASE v.fam = "iceserver" -> IceRT(impl, v)
                 [] v.fam = "enum"      -> EnumRT(impl, EnumByName(v.enum), v.i)
                 [] v.fam = "stats"     -> StatsRT(impl, v)
                 [] v.fam = "sdesc"     -> SdescRT(impl, v)
                 [] OTHER               -> TRUE

Init == vec \in Space
Next == FALSE /\ UNCHANGED vec
Spec == Init /\ [][Next]_vars

\* Decode(Encode(v)) = v on the abstract domain, for the variant named by Impl
ModelRoundTrip == RT(Impl, vec)
\* exactly where the code as it is loses a value
AsIsFailures ==
  ~RT("asis", vec) <=>
     \/ vec.fam = "iceserver" /\ vec.urls = "nil"
     \/ vec.fam = "enum" /\ vec.enum \in {"SDPType", "ICECandidateType"} /\ vec.i = 0
     \/ vec.fam = "sdesc" /\ vec.type = 0
     \/ vec.fam = "stats" /\ vec.gotype = "ICECandidateStats" /\ vec.fill = "zero"
TableFacts == /\ EnumTableFacts
              /\ \A s \in StatsTypes : Dispatch(s.tag, s.kind) = s.go       \* the dispatch inverts the tagging
              /\ \A s \in StatsTypes : \A n \in s.enums : \E e \in Enums : e.name = n /\ e.codec = "text"

EmitVec == PrintT(<<"VERIF_VEC", ToJson([v |-> vec, exp |-> RT("asis", vec)])>>)
=============================================================================
