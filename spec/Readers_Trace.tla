---------------------------- MODULE Readers_Trace ----------------------------
(* Trace specification for C37.  One line per input vector: the run of the   *)
(* real reader (or Opus header parser) on the bytes of that vector, as       *)
(* recorded by the driver:                                                   *)
(*   open   outcome of the constructor / of the single parser call           *)
(*   pos0   consumed-byte counter when the constructor returned              *)
(*   calls  counter after each read call that returned a value               *)
(*   end    "error" | "eof" | "value" (parsers) - the reader stopped -,      *)
(*          "panic" (recovered by the driver), "oom" (the process died with  *)
(*          the runtime's out-of-memory error under the stated address-space *)
(*          budget; found and confirmed alone by the orchestrator), "hang"   *)
(*          (no return within the deadline), "budget" (more than n + 2       *)
(*          values from n bytes)                                             *)
(*   msg    class of the panic message (digits removed), "" otherwise        *)
EXTENDS ReadersOps, TraceKit, SequencesExt

VARIABLES l, viol, cnt

RunOf(e) == [open |-> e.open, pos0 |-> e.pos0, calls |-> e.calls, end |-> e["end"]]

CrashDetail(e) == IF e["end"] = "panic" \/ e.open = "panic" THEN "panic(" \o e.msg \o ")" ELSE "oom"
StuckDetail(e) == IF e["end"] \in Stuck THEN e["end"] ELSE "no-progress"

Preds(e) ==
  LET r == RunOf(e) IN {
   PD("C37", "NoPanic", TRUE, NoPanic(r), IF NoPanic(r) THEN "ok" ELSE CrashDetail(e)),
   \* non-trivial when at least one read call returned a value or a call did not return
   PD("C37", "ProgressOrStop", Len(e.calls) > 0 \/ e["end"] \in Stuck, ProgressOrStop(r),
      IF ProgressOrStop(r) THEN "ok" ELSE StuckDetail(e)) }

Init == l = 1 /\ viol = <<>> /\ cnt = EmptyCount

Step ==
  /\ l <= Len(Trace)
  /\ LET e == Trace[l] IN
       IF e.ev # "run" THEN UNCHANGED <<viol, cnt>>
       ELSE LET ps == Preds(e) IN
            /\ viol' = viol \o SetToSeq(Failures(ps, e, l))
            /\ cnt'  = Count(cnt, ps)
  /\ l' = l + 1

Done == l = Len(Trace) + 1 /\ UNCHANGED <<l, viol, cnt>>
Next == Step \/ Done
Rep  == Report(l, viol, cnt)
=============================================================================
