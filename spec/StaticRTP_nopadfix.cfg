CONSTANTS
  NIds = 3
  MaxSteps = 4
  Copy = "pooled"
  Unbinder = "swapdelete"
  PadFix = FALSE
INIT Init
NEXT Next
INVARIANTS TypeOK ModelBindingsAreSet ModelEachBoundOnce ModelNoneAfterUnbind ModelRewritten ModelRestUnchanged ModelCallerUntouched 

CHECK_DEADLOCK FALSE
