CONSTANTS
  NIds = 3
  MaxSteps = 4
  Copy = "pooled"
  Unbinder = "swapdelete"
  PadFix = FALSE
  Lock = "held"
INIT Init
NEXT Next
INVARIANTS TypeOK ModelBindingsAreSet ModelEachBoundOnce ModelNoneAfterUnbind ModelRewritten ModelRestUnchanged ModelCallerUntouched ModelLinearizable ModelOverlapRewritten 

CHECK_DEADLOCK FALSE
