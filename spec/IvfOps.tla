------------------------------- MODULE IvfOps ------------------------------
(* Property C32 - IVF writer output reads back as the written frames.       *)
(* Normative operators only: the oracle. Used as invariants of the          *)
(* generative model (Ivf.tla) and as predicates on lines recorded from the  *)
(* real IVFWriter / IVFReader (Ivf_Trace.tla).                              *)
(*                                                                          *)
(* TLC integers are 32-bit. RTP timestamps are therefore carried as two     *)
(* 16-bit limbs [h, l] (value h*65536 + l), and every product is guarded by *)
(* a "fits" operator; a predicate whose expected value cannot be computed   *)
(* in 31 bits is simply not applied (the vector space keeps streams short   *)
(* enough that it always is).                                               *)
EXTENDS Integers, Sequences, FiniteSets, TLC

MaxInt == 2147483647
Limb   == 65536

FourCC(codec) ==
  CASE codec = "VP8" -> "VP80"
    [] codec \in {"VP9", "VP9f", "VP9n"} -> "VP90"
    [] codec = "AV1" -> "AV01"

(* ---- frames ------------------------------------------------------------ *)
\* A frame is abstracted to [n |-> length, h |-> content hash] (trace) or to a
\* sequence of payload tokens (model). "The same bytes, in order".
ReadBackEqualsAssembled(read, asm) == read = asm
FrameSame(r, a) == r.n = a.n /\ r.h = a.h

(* ---- header ------------------------------------------------------------ *)
\* hdr: what the reader returned; cfg: what the writer was configured with
HeaderFields(hdr, cfg) ==
  /\ hdr.fourcc = FourCC(cfg.codec)
  /\ hdr.w = cfg.w /\ hdr.h = cfg.h
  /\ hdr.num = cfg.num /\ hdr.den = cfg.den

CountWhenSeekable(seekable, nframes, written) == seekable => nframes = written

(* ---- timestamps -------------------------------------------------------- *)
RECURSIVE GCD(_, _)
GCD(a, b) == IF b = 0 THEN a ELSE GCD(b, a % b)

MulFits(a, b) == b = 0 \/ a <= MaxInt \div b

\* (a - b) mod 2^32 on limbs
Delta32(a, b) ==
  LET lo == a.l - b.l
      br == IF lo < 0 THEN 1 ELSE 0
      hi == a.h - b.h - br
  IN [h |-> (hi + 2 * Limb) % Limb, l |-> (lo + Limb) % Limb]

DeltaFits(d) == d.h < 32768
DeltaInt(d)  == d.h * Limb + d.l

\* a + n mod 2^32 on limbs (0 <= n < 2^30)
AddTs(a, n) ==
  LET lo == a.l + n IN [h |-> (a.h + lo \div Limb) % Limb, l |-> lo % Limb]

\* floor(1000*d / clock), computed without the factor common to 1000 and clock
\* (floor(1000 d / 90000) = floor(d / 90)), so that it fits whenever d does.
Ms(d, clock) == LET g == GCD(1000, clock) IN (d * (1000 \div g)) \div (clock \div g)
MsFits(d, clock) == MulFits(d, 1000 \div GCD(1000, clock))

\* The writer's PTS of a frame whose RTP timestamp is d ticks (mod 2^32) after the
\* timestamp of the first written frame: the tick count itself in direct mode, else
\* milliseconds (1000*d/clock) scaled by the timebase numerator/denominator.
WriterPts(d, clock, num, den, direct) ==
  IF direct THEN d ELSE (Ms(d, clock) * num) \div den

PtsComputable(d, clock, num, den, direct) ==
  direct \/ (den > 0 /\ MsFits(d, clock) /\ MulFits(Ms(d, clock), num))

PtsFormula(pts, d, clock, num, den, direct) == pts = WriterPts(d, clock, num, den, direct)

\* What the reader reports as frame timestamp must agree with the PTS in the file:
\* either the PTS itself or the PTS converted back with the header's timebase
\* (pion's reader returns pts*den/num). Both readings of "agree" are accepted.
ReaderTsComputable(pts, num, den) == num > 0 /\ MulFits(pts, den)
ReaderTsAgrees(rts, pts, num, den) == rts = pts \/ rts = (pts * den) \div num
=============================================================================
