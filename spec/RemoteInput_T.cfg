CONSTANTS
  NSec = 40
  NVec = 12000
  NCand = 5000
  NRtp = 3240
INIT Init
NEXT Next
INVARIANTS Emit
CHECK_DEADLOCK FALSE
