CONSTANTS
  Impl = "current"
  ReadImpl = "asis"
  EofWithData = FALSE
  MaxNalLen = 3
  MaxChunk = 3
  HdrSyms = {"S", "H", "Z", "O"}
  BodySyms = {"Z", "O", "F", "S"}
SPECIFICATION Spec
INVARIANTS TypeOK Exact
PROPERTIES Terminates
CHECK_DEADLOCK FALSE
