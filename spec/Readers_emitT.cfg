CONSTANTS
  Impl = "current"
  Space = "thorough"
INIT Init
NEXT Next
INVARIANTS EmitVec
CHECK_DEADLOCK FALSE
