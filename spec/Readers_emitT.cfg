CONSTANTS
  Impl = "asis"
  Space = "thorough"
INIT Init
NEXT Next
INVARIANTS EmitVec
CHECK_DEADLOCK FALSE
