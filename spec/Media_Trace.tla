------------------------------ MODULE Media_Trace ------------------------------
(* Trace specification for C23.  write: a packet accepted by the local track     *)
(* (seq, payload hash); rtp: a packet TrackRemote.ReadRTP returned; end: what    *)
(* the sender announced (ssrc lines of the track's m-section) and negotiated     *)
(* (payload type), and the identity of the remote track.  write lines precede    *)
(* the arrival of the same packet (the write is logged before the next one is    *)
(* sent, arrival takes a network round), but to be independent of that the       *)
(* packets are judged at `end`.  rtp lines carry rtx = the packet came over the  *)
(* repair stream (Media!Retransmit: the receiver NACKed packets it already had); *)
(* such a copy is judged like any arrival: same sequence number, same payload.   *)
EXTENDS TraceKit

VARIABLES pos, viol, cnt, wrote, recvd
SetOf(s) == {s[i] : i \in 1..Len(s)}

Preds(e) ==
  LET en == e.ev = "end" /\ e.connected IN {
   P("C23", "SomethingArrived", en /\ e.written >= 10, e.got >= 1),
   P("C23", "OnlyWhatWasWritten", en, \A r \in recvd : \E w \in wrote : w[1] = r[1]),
   P("C23", "PayloadUnchanged", en, \A r \in recvd : \A w \in wrote : w[1] = r[1] => (w[2] = r[2] /\ w[3] = r[3])),
   \* what TrackRemote.ReadRTP could not parse is something that arrived and was not written
   P("C23", "OnlyWhatWasWritten", e.ev = "readerr", FALSE),
   P("C23", "SsrcAnnounced", en /\ recvd # {}, \A r \in recvd : r[5] \in SetOf(e.announced)),
   P("C23", "PayloadTypeNegotiated", en /\ recvd # {}, \A r \in recvd : r[4] = e.pt),
   P("C23", "TrackIdentity", en /\ e.haveRemote,
        e.rmime = e.mime /\ e.rstream = e.stream /\ e.rtrack = e.track /\ e.rpt = e.pt)
  }

Init == pos = 1 /\ viol = {} /\ cnt = EmptyCount /\ wrote = {} /\ recvd = {}
Step ==
  /\ pos <= Len(Trace)
  /\ LET e == Trace[pos] IN
       IF e.ev = "reset" THEN wrote' = {} /\ recvd' = {} /\ UNCHANGED <<viol, cnt>>
       ELSE LET ps == Preds(e) IN
            /\ viol' = Merge(viol, Failures(ps, e, pos)) /\ cnt' = Count(cnt, ps)
            /\ wrote' = IF e.ev = "write" THEN wrote \cup {<<e.rseq, e.hash, e.len>>} ELSE wrote
            /\ recvd' = IF e.ev = "rtp" THEN recvd \cup {<<e.rseq, e.hash, e.len, e.pt, e.ssrc>>} ELSE recvd
  /\ pos' = pos + 1
Done == pos = Len(Trace) + 1 /\ UNCHANGED <<pos, viol, cnt, wrote, recvd>>
Next == Step \/ Done
Rep  == Report(pos, viol, cnt)
=============================================================================
