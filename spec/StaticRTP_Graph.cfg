CONSTANTS
  NIds = 3
  MaxSteps = 5
  Copy = "pooled"
  Unbinder = "swapdelete"
  PadFix = TRUE
INIT Init
NEXT Next
VIEW graphview
INVARIANTS EmitInitInv
ACTION_CONSTRAINT EmitEdge
CHECK_DEADLOCK FALSE
