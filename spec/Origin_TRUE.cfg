CONSTANTS
  Callers = {"a", "b", "c"}
  Locked = TRUE
  V0 = 1000
SPECIFICATION Spec
INVARIANTS EmitInitInv SameSessionId VersionsDistinct RealTimeOrder
ACTION_CONSTRAINT EmitEdge
CHECK_DEADLOCK FALSE
