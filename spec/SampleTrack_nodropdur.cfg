CONSTANTS
  Rates = {90000}
  StartSet = {"zero"}
  DurKinds = {"ms20"}
  Drops = {0, 1}
  Sizes = {1}
  MaxLen = 3
  Impl = "nodropdur"
INIT Init
NEXT Next
INVARIANTS ModelSameTs ModelNoDrift ModelSeqPlusOne ModelDropSkips
CHECK_DEADLOCK FALSE
