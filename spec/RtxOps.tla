------------------------------- MODULE RtxOps -------------------------------
(* RFC 4588 retransmission payload format: normative operators for C26.      *)
(*                                                                           *)
(* A *view* of an RTP packet is a record                                     *)
(*   [v, p, x, cc, m, pt, seq, ts, ssrc, csrc, xprof, xlen, xdata,           *)
(*    payload, plen]                                                         *)
(* (RFC 3550 5.1 fixed header fields, CSRC list, header extension, payload   *)
(* without padding and its length).  Only equality is ever used on the       *)
(* field values, except on p, x (0/1), cc, xlen, plen (naturals), so the     *)
(* same operators judge the byte-level model (Rtx.tla: values are bytes and  *)
(* byte sequences) and the traces recorded from pion (Rtx_Trace.tla: values  *)
(* are the numbers / hex strings / digests written by the Go projector).     *)
(*                                                                           *)
(* An *RTX view* additionally has osn (the first two payload bytes) and body *)
(* (the payload after them): RFC 4588 section 4.                             *)
EXTENDS Integers, Sequences, FiniteSets, TLC

\* ---- the property, clause by clause ---------------------------------------

\* "too short to carry an OSN": fewer than two payload bytes (padding excluded)
TooShort(in) == in.plen < 2

\* "sequence number equal to the original sequence number carried in the RTX payload"
SeqIsOsn(in, out) == out.seq = in.osn

\* "its SSRC and payload type are those of the primary stream"; prim = [pt, ssrc]
SsrcPtPrimary(out, prim) == out.ssrc = prim.ssrc /\ out.pt = prim.pt

\* "its payload is the RTX payload without the two-byte OSN"
PayloadMinusOsn(in, out) == out.payload = in.body /\ out.plen + 2 = in.plen

\* "all other header fields are unchanged": every RFC 3550 header field except
\* the three named above (sequence number, payload type, SSRC).  The padding
\* bit P *is* a header field; the padding octets are not (they are judged only
\* through the payload: with P kept, the payload still has to parse to body).
OtherHeaderFieldsSame(in, out) ==
  /\ out.v = in.v /\ out.p = in.p /\ out.x = in.x /\ out.cc = in.cc
  /\ out.m = in.m /\ out.ts = in.ts /\ out.csrc = in.csrc
  /\ out.xprof = in.xprof /\ out.xlen = in.xlen /\ out.xdata = in.xdata

\* the packet RFC 4588 says the receiver reconstructs
Unwrap(in, prim) ==
  [v |-> in.v, p |-> in.p, x |-> in.x, cc |-> in.cc, m |-> in.m, pt |-> prim.pt,
   seq |-> in.osn, ts |-> in.ts, ssrc |-> prim.ssrc, csrc |-> in.csrc,
   xprof |-> in.xprof, xlen |-> in.xlen, xdata |-> in.xdata,
   payload |-> in.body, plen |-> in.plen - 2]

\* constants.go documents that Read() adds the RTX stream's own payload type,
\* sequence number and SSRC as attributes of a repaired packet; att = [has, pt, seq, ssrc]
AttributesCarryRtx(in, att) == att.has /\ att.pt = in.pt /\ att.seq = in.seq /\ att.ssrc = in.ssrc

\* ---- RFC 3550 packet layout over byte sequences (used by the model) -------
\* Bytes are naturals; structural bytes (the first two octets, the extension
\* length, the padding count) are real values 0..255, all others may be opaque
\* tags (any natural): they are only moved and compared, never computed with.

Slice(b, from, n) == SubSeq(b, from, from + n - 1)     \* n bytes starting at index from (1-based)

ParseRtp(b) ==
  LET v    == b[1] \div 64
      p    == (b[1] \div 32) % 2
      x    == (b[1] \div 16) % 2
      cc   == b[1] % 16
      base == 12 + 4 * cc
      xlen == IF x = 1 THEN b[base + 3] * 256 + b[base + 4] ELSE 0
      hl   == IF x = 1 THEN base + 4 + 4 * xlen ELSE base
      padl == IF p = 1 THEN b[Len(b)] ELSE 0
      pl   == Len(b) - hl - padl
  IN [v |-> v, p |-> p, x |-> x, cc |-> cc, m |-> b[2] \div 128, pt |-> b[2] % 128,
      seq |-> Slice(b, 3, 2), ts |-> Slice(b, 5, 4), ssrc |-> Slice(b, 9, 4),
      csrc |-> Slice(b, 13, 4 * cc),
      xprof |-> IF x = 1 THEN Slice(b, base + 1, 2) ELSE <<>>,
      xlen |-> xlen,
      xdata |-> IF x = 1 THEN Slice(b, base + 5, 4 * xlen) ELSE <<>>,
      payload |-> Slice(b, hl + 1, pl), plen |-> pl]

\* RFC 4588 view of a parsed packet
RtxView(pk) ==
  [v |-> pk.v, p |-> pk.p, x |-> pk.x, cc |-> pk.cc, m |-> pk.m, pt |-> pk.pt, seq |-> pk.seq,
   ts |-> pk.ts, ssrc |-> pk.ssrc, csrc |-> pk.csrc, xprof |-> pk.xprof, xlen |-> pk.xlen,
   xdata |-> pk.xdata, payload |-> pk.payload, plen |-> pk.plen,
   osn  |-> IF pk.plen >= 2 THEN Slice(pk.payload, 1, 2) ELSE <<>>,
   body |-> IF pk.plen >= 2 THEN Slice(pk.payload, 3, pk.plen - 2) ELSE <<>>]
=============================================================================
