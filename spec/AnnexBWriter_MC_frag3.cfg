CONSTANTS
  Impl = "intended"
  Codecs = {"h264", "h265"}
  MTUs = {20, 128}
  Sizes = {"s", "m+", "g1", "g2", "g0"}
  MaxNals = 3
  Openers = {FALSE, TRUE}
  Aggs = {TRUE}
  Types264 = {1, 5, 7}
  Types265 = {1, 19, 39}
  Emit = TRUE
INIT Init
NEXT Next
INVARIANTS Correct TailAlways PktfixExactUnlessAggN EmitVec
CHECK_DEADLOCK FALSE
