CONSTANTS
  NVec = 4000
  NSec = 14
  MaxSecs = 3
INIT Init
NEXT Next
INVARIANTS ModelMirrors ModelLegalDirs ModelUniqueMids Emit
CHECK_DEADLOCK FALSE
