CONSTANTS
  M = 16
  MaxPackets = 4
  MinPackets = 1
  FrameSizes = {1, 2, 3}
  SameTs = TRUE
  MaxLates = {2}
  Delays = {0}
  StartBacks = {2}
  MarkerModes = {TRUE, FALSE}
  HeadModes = {FALSE}
  Windows = {3}
  Modes = {"all"}
  MaxLoss = 1
  MaxDup = 1
  MaxPopCalls = 3
  MaxMidFlush = 0
  Eagers = {FALSE}
  Holds = {0}
  HoldFors = {0}
  Situations = FALSE
  Algo = "abstract"
  Impl = "pinned"
  Sampling = FALSE
INIT Init
NEXT Next
VIEW mcview
INVARIANTS ModelContiguousSameTs ModelStartsAtHead ModelInOrder ModelNoPacketTwice
CHECK_DEADLOCK FALSE
