----------------------------- MODULE Config_Trace -----------------------------
(* Trace specification for C39: every line is one SetConfiguration call on a *)
(* real PeerConnection with the abstract records of the argument and of      *)
(* GetConfiguration() before and after it, whether a local description       *)
(* existed, whether the connection was closed, the result and the rtcerr     *)
(* type of the error.  badServers is the class of the ICE servers the driver *)
(* built for the vector (bad URL scheme, TURN without credentials, TURN with *)
(* a non-string password, a valid server followed by an invalid one).        *)
EXTENDS ConfigOps, TraceKit

VARIABLES l, viol, cnt

Preds(e) ==
  LET att == ChangeAttempted(e.arg, e.before, e.hasLocal) IN {
   P("C39", "RejectsImmutableChange", att, C39_RejectsImmutableChange(e.arg, e.before, e.hasLocal, e.res)),
   P("C39", "ErrorKind", att /\ e.res = "err",
        C39_ErrorKind(e.arg, e.before, e.hasLocal, e.closed, e.res, e.kind)),
   P("C39", "ImmutableNeverChanges", TRUE, C39_ImmutableNeverChanges(e.before, e.after, e.hasLocal)),
   P("C39", "ErrorAtomic", e.res = "err", C39_ErrorAtomic(e.before, e.after, e.res)),
   P("C39", "BadServersRejected", e.badServers, C39_BadServersRejected(e.badServers, e.res)),
   P("C39", "BadServersNoPartialChange", e.badServers, C39_BadServersNoPartialChange(e.badServers, e.before, e.after))
  }

Init == l = 1 /\ viol = {} /\ cnt = EmptyCount

Step ==
  /\ l <= Len(Trace)
  /\ LET e == Trace[l] IN
       IF e.ev = "reset" THEN UNCHANGED <<viol, cnt>>
       ELSE LET ps == Preds(e) IN
            /\ viol' = viol \cup Failures(ps, e, l)
            /\ cnt'  = Count(cnt, ps)
  /\ l' = l + 1

Done == l = Len(Trace) + 1 /\ UNCHANGED <<l, viol, cnt>>
Next == Step \/ Done
Rep  == Report(l, viol, cnt)
=============================================================================
