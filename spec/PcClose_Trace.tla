----------------------------- MODULE PcClose_Trace -----------------------------
(* Trace specification for C21.  conn: a connection-state change at dispatch    *)
(* (hook next to the store); end: after every Close / GracefulClose call (and   *)
(* the racing state callback) returned or the watchdog expired: final           *)
(* connection and signaling state, callers that did not return, the error class *)
(* of each negotiation-changing call, and for the sequential graceful runs how  *)
(* many more goroutines exist than before the pair was created.  ret: a closer  *)
(* returned; busy = goroutines of the connection the application still keeps    *)
(* inside an operation / a message handler at that moment.                      *)
EXTENDS TraceKit

VARIABLES pos, viol, cnt, sawClosed

Preds(e) ==
  LET en == e.ev = "end" IN {
   P("C21", "AllReturn", en, Len(e.hung) = 0),
   P("C21", "FinalSignalingClosed", en /\ Len(e.hung) = 0, e.sigState = "closed"),
   P("C21", "FinalConnectionClosed", en /\ Len(e.hung) = 0, e.to = "closed"),
   P("C21", "NoStateAfterClosed", e.ev = "conn" /\ e.ordered, sawClosed => e.to = "closed"),
   P("C21", "MutatorsRejected", en /\ Len(e.hung) = 0,
        \A i \in 1..Len(e.mutators) : e.mutators[i] = "InvalidStateError"),
   P("C21", "NoGoroutineLeft", en /\ e.census, e.leak = 0),
   \* a GracefulClose that returned found no goroutine of the connection in the middle of an operation
   \* of the queue or of a data-channel handler
   P("C21", "GracefulWaits", e.ev = "ret" /\ e.graceful /\ e.worker # "", e.busy = 0)
  }

Init == pos = 1 /\ viol = {} /\ cnt = EmptyCount /\ sawClosed = FALSE
Step ==
  /\ pos <= Len(Trace)
  /\ LET e == Trace[pos] IN
       IF e.ev = "reset" THEN sawClosed' = FALSE /\ UNCHANGED <<viol, cnt>>
       ELSE LET ps == Preds(e) IN
            /\ viol' = Merge(viol, Failures(ps, e, pos)) /\ cnt' = Count(cnt, ps)
            /\ sawClosed' = (sawClosed \/ (e.ev = "conn" /\ e.to = "closed"))
  /\ pos' = pos + 1
Done == pos = Len(Trace) + 1 /\ UNCHANGED <<pos, viol, cnt, sawClosed>>
Next == Step \/ Done
Rep  == Report(pos, viol, cnt)
=============================================================================
