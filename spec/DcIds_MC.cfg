CONSTANTS
  RecordPath = FALSE
  MaxSteps = 5
  ExplicitIds = {0, 1, 2, 3}
  MaxChans = 4
INIT Init
NEXT Next
INVARIANTS ModelParity ModelNot65535 ModelUnique
PROPERTIES ModelStable
CHECK_DEADLOCK FALSE
