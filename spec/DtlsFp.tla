------------------------------- MODULE DtlsFp -------------------------------
(* DTLS authentication against the signalled fingerprint (C14).               *)
(* Vector space: which certificate the presenting side uses, how the           *)
(* fingerprint line that the verifying side receives was altered, where the    *)
(* fingerprint is placed, whether verification is switched off, and which side *)
(* verifies the altered description.  A small transport machine (new ->        *)
(* connecting -> connected | failed -> closed) carries the outcome; delivery   *)
(* of application data is enabled only in `connected`.                         *)
EXTENDS Naturals, Sequences, FiniteSets, TLC, Json

VARIABLES vec, state, delivered
vars == <<vec, state, delivered>>

\* "two": two user-supplied certificates (the first one is presented); "two-reconfigured": the same, and
\* the application then calls SetConfiguration with the two in the other order (refused or not, what is
\* advertised must stay what is presented)
Certs == {"generated", "ecdsa", "rsa", "two", "two-reconfigured"}
\* "unknown-hash": a hash name the implementation does not know, arbitrary value; "unknown-hash-sha256-value":
\* such a name with the value the SHA-256 fingerprint would have; "absent": no fingerprint attribute at all
Fps   == {"correct", "first-digit", "middle-digit", "last-digit", "sha1-wrong", "sha512-correct",
          "unknown-hash", "unknown-hash-sha256-value", "absent"}
\* (a second driver adds vectors outside this space: the verifying side is an ORTC stack and the peer a raw DTLS
\* client that proves possession of its own certificate only and may append the signalled one to its chain:
\* fingerprint class "foreign-leaf", to be judged like any mismatch)
Places == {"media", "session", "both"}
Space == [cert : Certs, fp : Fps, place : Places, verifyOff : BOOLEAN, verifier : {"answerer", "offerer"}]

Matches(v) == v.fp \in {"correct", "sha512-correct"}
MayConnect(v) == Matches(v) \/ v.verifyOff

Init == vec \in Space /\ state = "new" /\ delivered = FALSE
Start    == state = "new" /\ state' = "connecting" /\ UNCHANGED <<vec, delivered>>
Succeed  == state = "connecting" /\ MayConnect(vec) /\ state' = "connected" /\ UNCHANGED <<vec, delivered>>
Fail     == state = "connecting" /\ ~MayConnect(vec) /\ state' = "failed" /\ UNCHANGED <<vec, delivered>>
Deliver  == state = "connected" /\ delivered' = TRUE /\ UNCHANGED <<vec, state>>
Close    == state \in {"connected", "failed"} /\ state' = "closed" /\ UNCHANGED <<vec, delivered>>
Next == Start \/ Succeed \/ Fail \/ Deliver \/ Close

MismatchNeverConnected == (~Matches(vec) /\ ~vec.verifyOff) => state # "connected"
NoDeliveryWithoutAuth  == (~Matches(vec) /\ ~vec.verifyOff) => ~delivered
EmitVec == (state = "new") => PrintT(<<"VERIF_VEC", ToJson(vec)>>)
=============================================================================
