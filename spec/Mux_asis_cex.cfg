CONSTANTS
  Impl = "asis"
  NBefore = 2
  NAfter = 2
SPECIFICATION Spec
INVARIANTS Ordered
CHECK_DEADLOCK FALSE
