CONSTANTS
  NVec = 150
  NSec = 9
  MaxSecs = 3
INIT Init
NEXT Next
INVARIANTS ModelMirrors ModelLegalDirs ModelUniqueMids Emit
CHECK_DEADLOCK FALSE
