CONSTANTS
  Impl = "intended"
  Mode = "sample"
  MaxLocal = 3
  MaxRemote = 4
  NSample = 10000
  Emit = TRUE
INIT Init
NEXT Next
INVARIANTS ModelNegotiatedOKAndEmit
CHECK_DEADLOCK FALSE
