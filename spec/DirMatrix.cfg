INIT Init
NEXT Next
INVARIANTS ModelLegal Emit
CHECK_DEADLOCK FALSE
