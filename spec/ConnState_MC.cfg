CONSTANTS
  Impl = "asis"
INIT Init
NEXT Next
VIEW view
INVARIANTS TypeOK TableFacts SwitchIsTable EmitInitInv
PROPERTIES ModelNotify ModelAggregate
ACTION_CONSTRAINT EmitEdge
CHECK_DEADLOCK FALSE
