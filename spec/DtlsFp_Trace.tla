----------------------------- MODULE DtlsFp_Trace -----------------------------
(* Trace specification for C14: one line per vector run on a real pair.         *)
EXTENDS TraceKit

VARIABLES pos, viol, cnt
Has(s, x) == \E i \in 1..Len(s) : s[i] = x
Matches(e) == e.fp \in {"correct", "sha512-correct"}
Mismatch(e) == e.ev = "dtls" /\ ~Matches(e) /\ ~e.verifyOff

Preds(e) == {
   P("C14", "AdvertisedEqualsPresented", e.ev = "dtls" /\ e.advertised # "unknown", e.advertised = "equal"),
   P("C14", "MismatchNeverConnected", Mismatch(e), ~Has(e.verifierStates, "connected") /\ e.verifierFinal # "connected"),
   P("C14", "NoDeliveryWithoutAuth", Mismatch(e), ~e.opened /\ ~e.gotMsg)
  }

Init == pos = 1 /\ viol = {} /\ cnt = EmptyCount
Step ==
  /\ pos <= Len(Trace)
  /\ LET e == Trace[pos] IN
       IF e.ev = "reset" THEN UNCHANGED <<viol, cnt>>
       ELSE LET ps == Preds(e) IN viol' = Merge(viol, Failures(ps, e, pos)) /\ cnt' = Count(cnt, ps)
  /\ pos' = pos + 1
Done == pos = Len(Trace) + 1 /\ UNCHANGED <<pos, viol, cnt>>
Next == Step \/ Done
Rep  == Report(pos, viol, cnt)
=============================================================================
