CONSTANTS
  Impl = "intended"
  Codecs = {"h264", "h265"}
  MTUs = {128}
  Sizes = {"s", "b"}
  MaxNals = 3
  Openers = {FALSE}
  Aggs = {TRUE, FALSE}
  Types264 = {1, 5, 6, 7, 8}
  Types265 = {1, 19, 32, 33, 34, 39}
  Emit = TRUE
INIT Init
NEXT Next
INVARIANTS Correct TailAlways PktfixExactUnlessAggN EmitVec
CHECK_DEADLOCK FALSE
