CONSTANTS
  Impl = "asis"
  NBefore = 2
  NAfter = 2
SPECIFICATION Spec
INVARIANTS EmitInitInv
ACTION_CONSTRAINT EmitEdge
CHECK_DEADLOCK FALSE
