-------------------------- MODULE RemoteInput_Trace --------------------------
(* Trace specification for C30: one line per hostile vector with the outcome   *)
(* the orchestrator established: "returned" (the calls returned and the process *)
(* was still alive after the queued work ran), "crashed" (the child process     *)
(* died while this vector was in flight) or "hung" (a call did not return).     *)
EXTENDS TraceKit

VARIABLES pos, viol, cnt
Preds(e) == {
   P("C30", "NoPanic", e.ev = "vec", e.outcome # "crashed"),
   P("C30", "EveryCallReturns", e.ev = "vec", e.outcome # "hung")
  }
Init == pos = 1 /\ viol = {} /\ cnt = EmptyCount
Step ==
  /\ pos <= Len(Trace)
  /\ LET e == Trace[pos] IN
       IF e.ev = "reset" THEN UNCHANGED <<viol, cnt>>
       ELSE LET ps == Preds(e) IN viol' = Merge(viol, Failures(ps, e, pos)) /\ cnt' = Count(cnt, ps)
  /\ pos' = pos + 1
Done == pos = Len(Trace) + 1 /\ UNCHANGED <<pos, viol, cnt>>
Next == Step \/ Done
Rep  == Report(pos, viol, cnt)
=============================================================================
