CONSTANTS
  Rates = {8000, 48000, 90000}
  StartSet = {"zero"}
  DurKinds = {"third", "ms1", "ms20", "ms33", "s30", "ntsc"}
  Drops = {0, 1, 3}
  Sizes = {0, 1, 3}
  MaxLen = 3
  SeqOpts = {TRUE}
  TsOpts = {TRUE}
  Rebinds = FALSE
  Impl = "carry"
INIT Init
NEXT Next
VIEW mcview
INVARIANTS TypeOK ModelClockExact ModelSameTs ModelNoDrift ModelSeqPlusOne ModelDropSkips
CHECK_DEADLOCK FALSE
