CONSTANTS
  RecordPath = FALSE
  MaxSteps = 7
  MaxChanges = 3
INIT Init
NEXT Next
INVARIANTS OnlyWhenStableOpen NoSecondFire FiresWhenNeeded
CHECK_DEADLOCK FALSE
