---------------------------- MODULE ConnStateOps ----------------------------
(* Property C22: RTCPeerConnectionState is the W3C aggregate of the closed  *)
(* flag, the ICE connection state and the DTLS transport state, and the     *)
(* state-change handler runs only when the state actually changes.          *)
(*                                                                          *)
(* Normative operators only.  pion has exactly one ICE transport and one    *)
(* DTLS transport per PeerConnection, so "any/all RTCIceTransports" of the  *)
(* W3C table degenerate to statements about one value each.                 *)
EXTENDS Naturals, Sequences, FiniteSets, TLC, Json

ICEStates  == {"new", "checking", "connected", "completed", "disconnected", "failed", "closed"}
DTLSStates == {"new", "connecting", "connected", "closed", "failed"}
ConnStates == {"new", "connecting", "connected", "disconnected", "failed", "closed"}
Inputs     == BOOLEAN \X ICEStates \X DTLSStates           \* 2 x 7 x 5 = 70

(* The rows of the table of webrtc-pc 4.3.3 (RTCPeerConnectionState), each   *)
(* WITHOUT its "none of the previous states apply" clause; the precedence is *)
(* made explicit by Precedence/ConnState below (the order of the property    *)
(* text: closed, failed, disconnected, new, connected, connecting).          *)
RowHolds(r, c, i, d) ==
  CASE r = "closed"       -> c                                     \* [[IsClosed]] is true
    [] r = "failed"       -> i = "failed" \/ d = "failed"          \* any transport failed
    [] r = "disconnected" -> i = "disconnected"                    \* ICE disconnected
    [] r = "new"          -> i \in {"new", "closed"} /\ d \in {"new", "closed"}
    [] r = "connected"    -> i \in {"connected", "completed", "closed"} /\ d \in {"connected", "closed"}
    [] r = "connecting"   -> TRUE                                  \* none of the previous states apply

Precedence == <<"closed", "failed", "disconnected", "new", "connected", "connecting">>

FirstRow(R(_, _, _, _), c, i, d) ==
  Precedence[CHOOSE k \in 1..Len(Precedence) :
               /\ R(Precedence[k], c, i, d)
               /\ \A j \in 1..(k - 1) : ~R(Precedence[j], c, i, d)]

\* the aggregate, per-transport wording of the table (WebRTC 1.0 Recommendation)
ConnState(c, i, d) == FirstRow(RowHolds, c, i, d)

(* The current editor's draft words the same rows over the aggregated        *)
(* [[IceConnectionState]]: a closed ICE transport of a connection that is    *)
(* not closed aggregates to "new", and the "connected" row names only the    *)
(* ICE state "connected".  Read literally this differs from the wording      *)
(* above in exactly three of the 70 cells (checked by TLC in ConnState.tla:  *)
(* TableFacts).  The property text does not choose between the published     *)
(* wordings, so an observation is accepted if either yields it.              *)
IceAgg(i) == IF i = "closed" THEN "new" ELSE i
RowHoldsED(r, c, i, d) ==
  CASE r = "new"       -> IceAgg(i) = "new" /\ d \in {"new", "closed"}
    [] r = "connected" -> IceAgg(i) = "connected" /\ d \in {"connected", "closed"}
    [] OTHER           -> RowHolds(r, c, i, d)
ConnStateED(c, i, d) == FirstRow(RowHoldsED, c, i, d)

Admissible(c, i, d) == {ConnState(c, i, d), ConnStateED(c, i, d)}

\* ---- the predicates of C22 ----
\* after: ConnectionState() once updateConnectionState(ice, dtls) returned with [[IsClosed]] = c
C22_Aggregate(c, i, d, after) == after \in Admissible(c, i, d)

\* notes: the values the OnConnectionStateChange handler was invoked with because of this update
C22_NotifyOnlyIfChanged(before, after, notes) ==
  /\ after = before => Len(notes) = 0
  /\ Len(notes) <= 1
  /\ \A k \in 1..Len(notes) : notes[k] = after
\* the converse (a change is reported, once, with the new state); kept apart so that a failure names
\* the direction that broke
C22_NotifiedWhenChanged(before, after, notes) == after # before => notes = <<after>>

(* Weak form for free-running connected pairs, where handler goroutines run  *)
(* in no particular order: every reported state is the aggregate of SOME     *)
(* (closed, ice, dtls) combination the connection went through.              *)
C22_ReportedIsSomeAggregate(rep, closedSeen, ices, dtlss) ==
  \E c \in closedSeen, i \in ices, d \in dtlss : rep \in Admissible(c, i, d)
=============================================================================
