------------------------------- MODULE Readers -------------------------------
(* Generative model for C37.                                                 *)
(*                                                                           *)
(* 1. File layouts.  Every base file is a sequence of named fields (magic,   *)
(*    numeric fields with width and endianness, start codes, NAL headers,    *)
(*    data) with concrete bytes: IVF, rtpdump, Ogg/Opus, Annex-B H.264 and   *)
(*    H.265 streams, OpusHead and OpusTags payloads.                         *)
(* 2. The structural input space.  A vector is a base file with up to two    *)
(*    fields replaced by a boundary value of their kind (0, 1, 7, 8, 254,    *)
(*    255, 256, 65535, 2^31-1, 2^32-1 as far as the width allows; broken     *)
(*    magic; start-code variants), optionally truncated at an offset, for    *)
(*    Ogg with or without repaired page checksums.                           *)
(* 3. The readers.  The framing logic of each reader is transcribed from     *)
(*    pkg/media/{ivfreader,oggreader,h264reader,h265reader,rtpdump} at byte  *)
(*    level - which lengths are parsed, what is compared with what is left,  *)
(*    which slices are taken - as functions "open" and "next" on (input,     *)
(*    position).  A slice expression whose bounds the code does not guard    *)
(*    would yield "panic"; an allocation of 2^30 bytes or more driven by a   *)
(*    length field yields "oom" when Impl = "asis" (the pinned pion allocates *)
(*    what the IVF frame header says) and an error when Impl = "intended".   *)
(*    Impl = "current" is pion as it is now: f2d7ab1 reads IVF frames above  *)
(*    1 MiB through a LimitReader (no allocation from the size field) and    *)
(*    7b855c6 filters a trailing SEI unit, c5e853e makes the rtpdump reader  *)
(*    reject record lengths below 8; "asis" keeps the pinned code as         *)
(*    the record of the counterexample TLC finds.                            *)
(* 4. The contract automaton: open, then next until a non-value outcome.     *)
(*    TLC checks NoPanic, ProgressOrStop, termination within n calls and     *)
(*    that positions stay inside the input, for every vector.                *)
(* The terminal states (vector + predicted run) are what is replayed.        *)
EXTENDS ReadersOps, Randomization

CONSTANTS Impl,     \* "asis" | "current" | "intended"
          Space     \* "quick" | "thorough" | "ivf" (as-is refutation)

VARIABLES vec, input, pos, hs, run, phase

vars == <<vec, input, pos, hs, run, phase>>

\* ------------------------------------------------------------------ bytes
Min(a, b) == IF a < b THEN a ELSE b
Splice(s, off, del, ins) == SubSeq(s, 1, off) \o ins \o SubSeq(s, off + del + 1, Len(s))
U16LE(b, i) == b[i] + 256 * b[i + 1]
U16BE(b, i) == 256 * b[i] + b[i + 1]
\* a 32-bit little-endian number, abstracted: big = at least 2^16, gib = at least 2^30, v = low 16 bits
N32LE(b, i) == [big |-> b[i + 2] # 0 \/ b[i + 3] # 0, gib |-> b[i + 3] >= 64, v |-> b[i] + 256 * b[i + 1]]
Exceeds(n, k) == n.big \/ n.v > k            \* n > k, for k < 2^16
SliceOK(lo, hi, n) == 0 <= lo /\ lo <= hi /\ hi <= n
Is(b, i, lit) == i + Len(lit) - 1 <= Len(b) /\ SubSeq(b, i, i + Len(lit) - 1) = lit
SumBytes(b, i, j) == LET F[k \in (i - 1)..j] == IF k < i THEN 0 ELSE b[k] + F[k - 1] IN F[j]
HasByte(b, i, j, c) == \E k \in i..j : b[k] = c

LE16(n) == <<n % 256, n \div 256>>
BE16(n) == <<n \div 256, n % 256>>
LE32(n) == <<n % 256, (n \div 256) % 256, (n \div 65536) % 256, n \div 16777216>>
BE32(n) == <<n \div 16777216, (n \div 65536) % 256, (n \div 256) % 256, n % 256>>
LE64(n) == LE32(n) \o <<0, 0, 0, 0>>

\* ASCII
DKIF == <<68, 75, 73, 70>>
VP80 == <<86, 80, 56, 48>>
OggS == <<79, 103, 103, 83>>
OpusHead == <<79, 112, 117, 115, 72, 101, 97, 100>>
OpusTags == <<79, 112, 117, 115, 84, 97, 103, 115>>
RtpPlay == <<35, 33, 114, 116, 112, 112, 108, 97, 121, 49, 46, 48, 32>>     \* "#!rtpplay1.0 "

\* ------------------------------------------------------------------ layouts
F(name, kind, v) == [name |-> name, kind |-> kind, v |-> v]

IvfHeader == <<F("hdr.sig", "magic", DKIF), F("hdr.version", "u16le", LE16(0)), F("hdr.hlen", "u16le", LE16(32)),
               F("hdr.fourcc", "data", VP80), F("hdr.w", "u16le", LE16(640)), F("hdr.h", "u16le", LE16(480)),
               F("hdr.tbden", "u32le", LE32(30)), F("hdr.tbnum", "u32le", LE32(1)),
               F("hdr.nframes", "u32le", LE32(4)), F("hdr.unused", "u32le", LE32(0))>>
IvfFrame(k, pts, data) == <<F(k \o ".size", "u32le", LE32(Len(data))), F(k \o ".pts", "u64le", LE64(pts)),
                            F(k \o ".data", "data", data)>>

RtpHeader == <<F("hdr.sec", "u32be", BE32(1638400000)), F("hdr.usec", "u32be", BE32(250000)),
               F("hdr.ip", "data", <<127, 0, 0, 1>>), F("hdr.port", "u16be", BE16(5004)), F("hdr.pad", "u16be", BE16(0))>>
RtpRec(k, plen, off, data) == <<F(k \o ".len", "u16be", BE16(8 + Len(data))), F(k \o ".plen", "u16be", BE16(plen)),
                                F(k \o ".off", "u32be", BE32(off)), F(k \o ".data", "data", data)>>

OggPageHdr(k, htype, gran, idx, crc, lacing) ==
  <<F(k \o ".sig", "magic", OggS), F(k \o ".version", "u8", <<0>>), F(k \o ".htype", "u8", <<htype>>),
    F(k \o ".granule", "u64le", LE64(gran)), F(k \o ".serial", "u32le", LE32(305419896)),
    F(k \o ".index", "u32le", LE32(idx)), F(k \o ".crc", "u32le", crc),         \* the valid checksum of the page (the driver verifies it)
    F(k \o ".nsegs", "u8", <<Len(lacing)>>)>>
  \o [i \in 1..Len(lacing) |-> F(k \o ".lace" \o ToString(i), "u8", <<lacing[i]>>)]

HeadFields(k, fam, chans, extra) ==
  <<F(k \o ".magic", "magic", OpusHead), F(k \o ".version", "u8", <<1>>), F(k \o ".channels", "u8", <<chans>>),
    F(k \o ".preskip", "u16le", LE16(312)), F(k \o ".rate", "u32le", LE32(48000)), F(k \o ".gain", "u16le", LE16(0)),
    F(k \o ".family", "u8", <<fam>>)>>
  \o (IF Len(extra) = 0 THEN <<>> ELSE
      <<F(k \o ".streams", "u8", <<extra[1]>>), F(k \o ".coupled", "u8", <<extra[2]>>),
        F(k \o ".mapping", "data", SubSeq(extra, 3, Len(extra)))>>)

TagFields(k, vendor, comments) ==
  <<F(k \o ".magic", "magic", OpusTags), F(k \o ".vendorlen", "u32le", LE32(Len(vendor))),
    F(k \o ".vendor", "data", vendor), F(k \o ".count", "u32le", LE32(Len(comments)))>>
  \o (IF Len(comments) >= 1
      THEN <<F(k \o ".c1len", "u32le", LE32(Len(comments[1]))), F(k \o ".c1", "data", comments[1])>> ELSE <<>>)
  \o (IF Len(comments) >= 2
      THEN <<F(k \o ".c2len", "u32le", LE32(Len(comments[2]))), F(k \o ".c2", "data", comments[2])>> ELSE <<>>)

Pion == <<112, 105, 111, 110>>
TitleAbc == <<116, 105, 116, 108, 101, 61, 97, 98, 99>>      \* "title=abc"
AeqB == <<97, 61, 98>>                                        \* "a=b"
NoEquals == <<110, 111, 101, 113>>                            \* "noeq"

Head0 == HeadFields("head", 0, 2, <<>>)                       \* 19 bytes
Head1 == HeadFields("head", 1, 2, <<1, 1, 0, 1>>)             \* 23 bytes: family 1, two channels
Head255 == HeadFields("head", 255, 3, <<2, 1, 0, 1, 2>>)      \* 24 bytes
Tags2 == TagFields("tags", Pion, <<TitleAbc, AeqB>>)          \* 40 bytes
Tags0 == TagFields("tags", <<>>, <<>>)                        \* 16 bytes
TagsBad == TagFields("tags", Pion, <<NoEquals>>)              \* comment without '='

SC3 == <<0, 0, 1>>
SC4 == <<0, 0, 0, 1>>
Nal264(k, sc, hdr, data) == <<F(k \o ".sc", "sc", sc), F(k \o ".hdr", "nalhdr", <<hdr>>), F(k \o ".data", "data", data)>>
Nal265(k, sc, hdr, data) == <<F(k \o ".sc", "sc", sc), F(k \o ".hdr", "nalhdr", <<hdr>>), F(k \o ".hdr2", "u8", <<1>>),
                              F(k \o ".data", "data", data)>>

\* <<format, base number>> -> [L |-> layout, nvals |-> values an intact file yields]
BaseIds == {<<"ivf", 1>>, <<"ivf", 2>>, <<"rtpdump", 1>>, <<"rtpdump", 2>>, <<"ogg", 1>>, <<"ogg", 2>>,
            <<"h264", 1>>, <<"h265", 1>>, <<"opushead", 1>>, <<"opushead", 2>>, <<"opushead", 3>>,
            <<"opustags", 1>>, <<"opustags", 2>>, <<"opustags", 3>>}

Base(fb) ==
  CASE fb = <<"ivf", 1>> ->
         [nvals |-> 4, L |-> IvfHeader \o IvfFrame("f1", 0, <<1, 2, 3, 4>>) \o IvfFrame("f2", 1, <<9>>)
                              \o IvfFrame("f3", 2, <<>>) \o IvfFrame("f4", 90000, <<7, 7>>)]
    [] fb = <<"ivf", 2>> -> [nvals |-> 0, L |-> IvfHeader]
    [] fb = <<"rtpdump", 1>> ->
         [nvals |-> 3, L |-> <<F("pre.magic", "text", RtpPlay), F("pre.addr", "text", <<49, 50, 55, 46, 48, 46, 48, 46, 49, 47, 53, 48, 48, 52>>),
                                F("pre.nl", "text", <<10>>)>> \o RtpHeader
                              \o RtpRec("r1", 12, 0, <<128, 96, 0, 1, 0, 0, 0, 10, 1, 2, 3, 4>>)
                              \o RtpRec("r2", 0, 20, <<129, 200, 0, 1, 5, 6, 7, 8>>)
                              \o RtpRec("r3", 0, 40, <<>>)]
    [] fb = <<"rtpdump", 2>> ->    \* longest possible text line (35 bytes)
         [nvals |-> 1, L |-> <<F("pre.magic", "text", RtpPlay),
                                F("pre.addr", "text", <<50, 53, 53, 46, 50, 53, 53, 46, 50, 53, 53, 46, 50, 53, 53, 47, 54, 53, 53, 51, 53>>),
                                F("pre.nl", "text", <<10>>)>> \o RtpHeader
                              \o RtpRec("r1", 2, 65535, <<128, 0>>)]
    [] fb = <<"ogg", 1>> ->
         [nvals |-> 3, L |-> OggPageHdr("p1", 2, 0, 0, <<35, 236, 176, 62>>, <<19>>) \o Head0
                              \o OggPageHdr("p2", 0, 0, 1, <<78, 89, 22, 48>>, <<40>>) \o Tags2
                              \o OggPageHdr("p3", 0, 960, 2, <<214, 30, 146, 64>>, <<1, 0, 2>>) \o <<F("p3.data", "data", <<11, 12, 13>>)>>
                              \o OggPageHdr("p4", 4, 1920, 3, <<177, 193, 192, 121>>, <<2>>) \o <<F("p4.data", "data", <<21, 22>>)>>]
    [] fb = <<"ogg", 2>> ->
         [nvals |-> 1, L |-> OggPageHdr("p1", 2, 0, 0, <<209, 219, 82, 153>>, <<23>>) \o Head1
                              \o OggPageHdr("p2", 0, 0, 1, <<33, 164, 168, 52>>, <<16>>) \o Tags0]
    [] fb = <<"h264", 1>> ->
         [nvals |-> 3, L |-> Nal264("n1", SC4, 103, <<170, 187>>) \o Nal264("n2", SC3, 6, <<204>>)
                              \o Nal264("n3", SC4, 101, <<221, 0, 0, 3, 238>>) \o Nal264("n4", SC3, 65, <<255, 0>>)]
    [] fb = <<"h265", 1>> ->
         [nvals |-> 3, L |-> Nal265("n1", SC4, 64, <<170>>) \o Nal265("n2", SC3, 78, <<187>>)
                              \o Nal265("n3", SC4, 38, <<204, 221>>) \o Nal265("n4", SC3, 80, <<238>>)
                              \o Nal265("n5", SC3, 2, <<255>>)]
    [] fb = <<"opushead", 1>> -> [nvals |-> 0, L |-> Head0]
    [] fb = <<"opushead", 2>> -> [nvals |-> 0, L |-> Head1]
    [] fb = <<"opushead", 3>> -> [nvals |-> 0, L |-> Head255]
    [] fb = <<"opustags", 1>> -> [nvals |-> 0, L |-> Tags2]
    [] fb = <<"opustags", 2>> -> [nvals |-> 0, L |-> Tags0]
    [] fb = <<"opustags", 3>> -> [nvals |-> 0, L |-> TagsBad]

Layout(fb) == Base(fb).L
Flat(L) == LET G[i \in 0..Len(L)] == IF i = 0 THEN <<>> ELSE G[i - 1] \o L[i].v IN G[Len(L)]
OffOf(L, i) == LET G[k \in 0..Len(L)] == IF k = 0 THEN 0 ELSE G[k - 1] + Len(L[k].v) IN G[i - 1]
BaseBytes(fb) == Flat(Layout(fb))
Parser(fmt) == fmt \in {"opushead", "opustags"}

\* ------------------------------------------------------------------ boundary values per field kind
B8    == {<<0>>, <<1>>, <<7>>, <<8>>, <<254>>, <<255>>}
B16LE == {<<x[1], 0>> : x \in B8} \cup {<<0, 1>>, <<255, 255>>}
B16BE == {<<0, x[1]>> : x \in B8} \cup {<<1, 0>>, <<255, 255>>}
B32LE == {x \o <<0, 0>> : x \in B16LE} \cup {<<255, 255, 255, 127>>, <<255, 255, 255, 255>>}
B32BE == {<<0, 0>> \o x : x \in B16BE} \cup {<<127, 255, 255, 255>>, <<255, 255, 255, 255>>}
B64LE == {<<0, 0, 0, 0, 0, 0, 0, 0>>, <<1, 0, 0, 0, 0, 0, 0, 0>>, <<255, 255, 255, 255, 0, 0, 0, 0>>,
          <<255, 255, 255, 255, 255, 255, 255, 255>>}
SCVariants == {<<>>, <<1>>, <<0, 1>>, <<0, 0>>, <<0, 0, 1>>, <<0, 0, 2>>, <<0, 0, 0>>, <<0, 0, 0, 1>>, <<0, 0, 0, 0, 1>>}
NalHdrs == B8 \cup {<<6>>, <<78>>, <<80>>, <<103>>}
Broken(v) == {[i \in 1..Len(v) |-> 0],
              [i \in 1..Len(v) |-> IF i = 1 THEN (v[1] + 1) % 256 ELSE v[i]],
              [i \in 1..Len(v) |-> IF i = Len(v) THEN (v[i] + 1) % 256 ELSE v[i]]}

MutVals(f) ==
  (CASE f.kind = "u8" -> B8 [] f.kind = "u16le" -> B16LE [] f.kind = "u16be" -> B16BE
     [] f.kind = "u32le" -> B32LE [] f.kind = "u32be" -> B32BE [] f.kind = "u64le" -> B64LE
     [] f.kind = "sc" -> SCVariants [] f.kind = "nalhdr" -> NalHdrs
     [] f.kind \in {"magic", "text"} -> Broken(f.v)
     [] OTHER -> {}) \ {f.v}

\* ------------------------------------------------------------------ vectors
FieldMuts(fb) == LET L == Layout(fb) IN
  UNION {{[f |-> i, ins |-> v] : v \in MutVals(L[i])} : i \in 1..Len(L)}
Fixes(fb) == IF fb[1] = "ogg" THEN BOOLEAN ELSE {FALSE}
V(fb, muts, trunc, fix) == [fmt |-> fb[1], base |-> fb[2], muts |-> muts, trunc |-> trunc, fix |-> fix]

Intact(fb)     == {V(fb, <<>>, -1, x) : x \in Fixes(fb)}
Truncs(fb)     == {V(fb, <<>>, t, x) : t \in 0..(Len(BaseBytes(fb)) - 1), x \in Fixes(fb)}
Fields(fb)     == {V(fb, <<m>>, -1, x) : m \in FieldMuts(fb), x \in Fixes(fb)}
Pairs(fb)      == {V(fb, <<m1, m2>>, -1, x) : m1 \in FieldMuts(fb), m2 \in FieldMuts(fb), x \in Fixes(fb)}
FieldTrunc(fb) == {V(fb, <<m>>, t, x) : m \in FieldMuts(fb), t \in 1..(Len(BaseBytes(fb)) + 1), x \in Fixes(fb)}

NSample == 6000          \* per base file and per kind of double mutation (thorough)
InSpace(v) ==
  CASE Space = "quick"    -> \E fb \in BaseIds : v \in Intact(fb) \/ v \in Truncs(fb) \/ v \in Fields(fb)
    [] Space = "thorough" -> \E fb \in BaseIds :
                                \/ v \in Intact(fb) \/ v \in Truncs(fb) \/ v \in Fields(fb)
                                \/ v \in {p \in RandomSubset(NSample, Pairs(fb)) : p.muts[1].f < p.muts[2].f}
                                \/ v \in RandomSubset(NSample, FieldTrunc(fb))
    [] Space = "ivf"      -> v \in Fields(<<"ivf", 1>>)

FB == <<vec.fmt, vec.base>>
RECURSIVE ApplyMuts(_, _, _)
ApplyMuts(b, L, muts) ==      \* offsets are those of the base file: apply from the last field to the first
  IF Len(muts) = 0 THEN b
  ELSE LET m == muts[Len(muts)] IN
       ApplyMuts(Splice(b, OffOf(L, m.f), Len(L[m.f].v), m.ins), L, SubSeq(muts, 1, Len(muts) - 1))
InputOf(v) ==
  LET fb == <<v.fmt, v.base>>
      b  == ApplyMuts(BaseBytes(fb), Layout(fb), v.muts)
  IN IF v.trunc >= 0 THEN SubSeq(b, 1, Min(v.trunc, Len(b))) ELSE b
Patches(v) == LET L == Layout(<<v.fmt, v.base>>) IN
  [i \in 1..Len(v.muts) |-> [off |-> OffOf(L, v.muts[i].f), del |-> Len(L[v.muts[i].f].v), ins |-> v.muts[i].ins,
                             name |-> L[v.muts[i].f].name]]

\* ------------------------------------------------------------------ the readers (transcriptions)
\* a call result: [k |-> outcome, pos |-> position afterwards, hs |-> Annex-B scanner state afterwards]
Res(k, p) == [k |-> k, pos |-> p, hs |-> hs]
HS0 == [pp |-> FALSE, nl |-> 0, first |-> 0, z |-> 0]

\* ---- IVF: NewWith -> parseFileHeader (32 bytes, signature, version, timebase), ParseNextFrame
AllZero(b, i, j) == \A k \in i..j : b[k] = 0
IvfOpen(b) ==
  IF Len(b) < 32 THEN Res("error", 0)
  ELSE IF SubSeq(b, 1, 4) # DKIF \/ U16LE(b, 5) # 0 THEN Res("error", 32)
  ELSE IF AllZero(b, 17, 20) \/ AllZero(b, 21, 24) THEN Res("error", 32)     \* errInvalidMediaTimebase (divisor of ptsToTimestamp)
  ELSE Res("value", 32)
IvfNext(b, p) ==
  LET rem == Len(b) - p IN
  IF rem = 0 THEN Res("eof", p)
  ELSE IF rem < 12 THEN Res("error", Len(b))
  ELSE LET sz == N32LE(b, p + 1)
           body == rem - 12 IN
       \* pinned: make([]byte, header.FrameSize).  Now: sizes up to 1 MiB are allocated and filled with
       \* io.ReadFull, larger ones read with io.ReadAll(io.LimitReader(..)); on inputs this small both end the
       \* same way (nothing left: io.EOF, too little: errIncompleteFrameData)
       IF Impl = "asis" /\ sz.gib THEN Res("oom", p + 12)
       ELSE IF ~sz.big /\ sz.v <= body THEN Res("value", p + 12 + sz.v)
       ELSE IF body = 0 THEN Res("eof", Len(b))                     \* io.ReadFull read nothing: io.EOF is passed on
       ELSE Res("error", Len(b))

\* ---- rtpdump: NewReader (Peek(36), text line pattern, 16 header bytes), Next
IsDigit(c) == c >= 48 /\ c <= 57
DigitRun(p, i) == LET G[k \in 0..6] == IF k = 6 \/ i + k > Len(p) THEN k
                                      ELSE IF IsDigit(p[i + k]) THEN G[k + 1] ELSE k IN G[0]
\* \d{1,max} followed by sep, starting at i (0 = already failed); returns the index behind sep or 0
Grp(p, i, max, sep) ==
  IF i = 0 THEN 0
  ELSE LET d == DigitRun(p, i) IN
       IF d >= 1 /\ d <= max /\ i + d <= Len(p) /\ p[i + d] = sep THEN i + d + 1 ELSE 0
\* `#\!rtpplay1\.0 \d{1,3}\.\d{1,3}\.\d{1,3}\.\d{1,3}\/\d{1,5}\n` on the 36 peeked bytes.  The pattern is not
\* anchored in pion; in this input space a '#' only ever occurs at the first byte, so anchoring is exact.
LineEnd(p) == Grp(p, Grp(p, Grp(p, Grp(p, Grp(p, IF Is(p, 1, RtpPlay) THEN 14 ELSE 0, 3, 46), 3, 46), 3, 46), 3, 47), 5, 10)
RtpOpen(b) ==
  IF Len(b) < 36 THEN Res("error", 0)
  ELSE LET e == LineEnd(SubSeq(b, 1, 36)) IN
       IF e = 0 THEN Res("error", 0)
       ELSE IF Len(b) - (e - 1) < 16 THEN Res("error", Len(b))
       ELSE Res("value", e - 1 + 16)
RtpNext(b, p) ==
  LET rem == Len(b) - p IN
  IF rem = 0 THEN Res("eof", p)
  ELSE IF rem < 8 THEN Res("error", Len(b))
  ELSE LET L == U16BE(b, p + 1)
           need == IF L >= 8 THEN L - 8 ELSE L - 8 + 65536          \* uint16 arithmetic in Reader.Next
           body == rem - 8 IN
       IF (IF Impl = "asis" THEN L = 0 ELSE L < 8) THEN Res("error", p + 8)     \* c5e853e: Length < 8 is rejected (pinned: only 0)
       ELSE IF need <= body THEN Res("value", p + 8 + need)
       ELSE IF body = 0 THEN Res("eof", Len(b))
       ELSE Res("error", Len(b))

\* ---- Ogg: ParseNextPage (27 header bytes, segment table, payload, checksum), NewWith validates the id page
RECURSIVE OggWalk(_, _)
OggWalk(b, p) ==     \* extents <<start, end>> of the complete pages of b as ParseNextPage frames them
  LET rem == Len(b) - p IN
  IF rem < 27 THEN {}
  ELSE LET ns == b[p + 27] IN
       IF rem - 27 < ns THEN {}
       ELSE LET ps == SumBytes(b, p + 28, p + 27 + ns)
                e  == p + 27 + ns + ps IN
            IF e > Len(b) THEN {} ELSE {<<p, e>>} \cup OggWalk(b, e)
\* the checksum holds if the driver repaired the checksums of all complete pages, or the page is
\* byte for byte a page of the base file (whose checksums are valid)
CrcOk(b, s, e) == vec.fix \/ (<<s, e>> \in OggWalk(BaseBytes(FB), 0) /\ SubSeq(b, s + 1, e) = SubSeq(BaseBytes(FB), s + 1, e))
OggPage(b, p) ==
  LET rem == Len(b) - p IN
  IF rem = 0 THEN Res("eof", p)
  ELSE IF rem < 27 THEN Res("error", Len(b))
  ELSE LET ns == b[p + 27]
           r1 == rem - 27 IN
       IF ns > 0 /\ r1 = 0 THEN Res("eof", Len(b))
       ELSE IF r1 < ns THEN Res("error", Len(b))
       ELSE LET ps == SumBytes(b, p + 28, p + 27 + ns)
                r2 == r1 - ns
                e  == p + 27 + ns + ps IN
            IF ps > 0 /\ r2 = 0 THEN Res("eof", Len(b))
            ELSE IF r2 < ps THEN Res("error", Len(b))
            ELSE IF ~CrcOk(b, p, e) THEN Res("error", e)
            ELSE Res("value", e)
\* ParseOpusHead / the id-page part of NewWith, on payload pl of b (1-based start s, length n)
HeadParse(b, s, n) ==
  IF n < 19 THEN "error"
  ELSE LET fam == b[s + 18] IN
       IF fam = 0 THEN (IF n = 19 THEN "value" ELSE "error")
       ELSE IF fam \in {1, 2, 255}
            THEN LET want == 21 + b[s + 9] IN
                 IF n # want THEN "error"
                 ELSE IF SliceOK(21, want, n) THEN "value" ELSE "panic"     \* payload[19], payload[20], payload[21:want]
       ELSE "error"
OggOpen(b) ==
  LET r == OggPage(b, 0) IN
  IF r.k # "value" THEN Res("error", r.pos)
  ELSE LET ns == b[27]
           s  == 28 + ns              \* 1-based index of the first payload byte
           n  == r.pos - 27 - ns IN
       IF SubSeq(b, 1, 4) # OggS \/ b[6] # 2 \/ n < 19 THEN Res("error", r.pos)
       ELSE IF ~Is(b, s, OpusHead) THEN Res("error", r.pos)
       ELSE LET h == HeadParse(b, s, n) IN Res(h, r.pos)

\* ---- ParseOpusTags
RECURSIVE TagComments(_, _, _)
TagComments(b, p, k) ==     \* p = 0-based position, k = comments left
  LET n == Len(b) IN
  IF k = 0 THEN "value"
  ELSE IF p + 4 > n THEN "error"
  ELSE LET cl == N32LE(b, p + 1)
           q  == p + 4 IN
       IF cl.big \/ q + cl.v > n THEN "error"
       ELSE IF ~SliceOK(q, q + cl.v, n) THEN "panic"
       ELSE IF ~HasByte(b, q + 1, q + cl.v, 61) THEN "error"              \* strings.SplitN(comment, "=", 2)
       ELSE TagComments(b, q + cl.v, k - 1)
TagsParse(b) ==
  LET n == Len(b) IN
  IF n < 16 THEN "error"
  ELSE IF SubSeq(b, 1, 8) # OpusTags THEN "error"
  ELSE LET vl == N32LE(b, 9) IN
       IF Exceeds(vl, n - 16) THEN "error"
       ELSE LET vend == 12 + vl.v IN
            IF vend + 4 > n THEN "error"
            ELSE IF ~SliceOK(12, vend, n) \/ ~SliceOK(vend, vend + 4, n) THEN "panic"
            ELSE LET cnt == N32LE(b, vend + 1) IN
                 IF Exceeds(cnt, (n - vend) \div 4) THEN "error"
                 ELSE TagComments(b, vend + 4, cnt.v)

\* ---- H.264 / H.265 Annex-B: bitStreamStartsWith..Prefix, NextNAL, processByte
\* scanner state: pp = prefix parsed, nl = len(nalBuffer), first = nalBuffer[0], z = countOfConsecutiveZeroBytes
IsSei(fmt, first) == IF fmt = "h264" THEN first % 32 = 6 ELSE (first % 128) \div 2 \in {39, 40}
Push(s, c) == [s EXCEPT !.nl = @ + 1, !.first = IF s.nl = 0 THEN c ELSE @]
RECURSIVE NalScan(_, _, _, _)
NalScan(fmt, b, p, s) ==       \* the for-loop of NextNAL from position p; returns [k, pos, hs]
  IF p = Len(b)
  THEN IF s.nl = 0 \/ (Impl # "asis" /\ IsSei(fmt, s.first))   \* since 7b855c6 a trailing SEI unit is filtered too
       THEN [k |-> "eof", pos |-> p, hs |-> [s EXCEPT !.nl = 0]]
       ELSE [k |-> "value", pos |-> p, hs |-> [s EXCEPT !.nl = 0]]
  ELSE LET c == b[p + 1] IN
       IF c = 0 THEN NalScan(fmt, b, p + 1, Push([s EXCEPT !.z = @ + 1], 0))
       ELSE IF c = 1 /\ s.z >= 2
            THEN LET cut  == IF s.z > 2 THEN 3 ELSE 2
                     nl   == s.nl - cut
                     s0   == [s EXCEPT !.z = 0] IN
                 IF nl > 0
                 THEN IF IsSei(fmt, s.first)                            \* skipped: nalBuffer = nil, the 1 is dropped
                      THEN NalScan(fmt, b, p + 1, [s0 EXCEPT !.nl = 0])
                      ELSE [k |-> "value", pos |-> p + 1, hs |-> [s0 EXCEPT !.nl = 0]]
                 ELSE NalScan(fmt, b, p + 1, Push(s0, 1))
       ELSE NalScan(fmt, b, p + 1, Push([s EXCEPT !.z = 0], c))
NalNext(fmt, b, p, s) ==
  IF s.pp THEN NalScan(fmt, b, p, s)
  \* read(4): a stream that ends (Read = 0, io.EOF) before four bytes makes read fail with io.EOF, which
  \* NextNAL passes on; nothing is consumed.  (The n < 4 branches of bitStreamStartsWith...Prefix are only
  \* reachable with a stream whose Read returns 0, nil.)
  ELSE IF Len(b) - p < 4 THEN [k |-> "eof", pos |-> p, hs |-> s]
  ELSE IF SubSeq(b, p + 1, p + 3) = SC3 THEN NalScan(fmt, b, p + 4, Push([s EXCEPT !.pp = TRUE], b[p + 4]))
  ELSE IF SubSeq(b, p + 1, p + 4) = SC4 THEN NalScan(fmt, b, p + 4, [s EXCEPT !.pp = TRUE])
  ELSE [k |-> "error", pos |-> p + 4, hs |-> s]

OpenOf(fmt, b) ==
  CASE fmt = "ivf" -> IvfOpen(b) [] fmt = "rtpdump" -> RtpOpen(b) [] fmt = "ogg" -> OggOpen(b)
    [] fmt \in {"h264", "h265"} -> Res("value", 0)                       \* NewReader reads nothing
NextOf(fmt, b, p) ==
  CASE fmt = "ivf" -> IvfNext(b, p) [] fmt = "rtpdump" -> RtpNext(b, p) [] fmt = "ogg" -> OggPage(b, p)
    [] fmt \in {"h264", "h265"} -> NalNext(fmt, b, p, hs)

\* ------------------------------------------------------------------ the contract automaton
Run0 == [open |-> "none", pos0 |-> 0, calls |-> <<>>, end |-> "none"]

Init == /\ InSpace(vec)
        /\ input = InputOf(vec)
        /\ pos = 0 /\ hs = HS0 /\ run = Run0 /\ phase = "new"

Parse ==
  /\ phase = "new" /\ Parser(vec.fmt)
  /\ LET k == IF vec.fmt = "opushead" THEN HeadParse(input, 1, Len(input)) ELSE TagsParse(input) IN
     run' = [run EXCEPT !.open = k, !.end = k]
  /\ phase' = "done"
  /\ UNCHANGED <<vec, input, pos, hs>>

Open ==
  /\ phase = "new" /\ ~Parser(vec.fmt)
  /\ LET r == OpenOf(vec.fmt, input) IN
     /\ run' = [run EXCEPT !.open = r.k, !.pos0 = IF r.k = "value" THEN r.pos ELSE 0,
                           !.end = IF r.k = "value" THEN "none" ELSE r.k]
     /\ pos' = r.pos /\ hs' = r.hs
     /\ phase' = IF r.k = "value" THEN "reading" ELSE "done"
  /\ UNCHANGED <<vec, input>>

NextCall ==
  /\ phase = "reading"
  /\ IF Len(run.calls) > Len(input) + 2
     THEN run' = [run EXCEPT !.end = "budget"] /\ phase' = "done" /\ UNCHANGED <<pos, hs>>
     ELSE LET r == NextOf(vec.fmt, input, pos) IN
          /\ pos' = r.pos /\ hs' = r.hs
          /\ IF r.k = "value"
             THEN run' = [run EXCEPT !.calls = Append(@, r.pos)] /\ phase' = "reading"
             ELSE run' = [run EXCEPT !.end = r.k] /\ phase' = "done"
  /\ UNCHANGED <<vec, input>>

Next == Parse \/ Open \/ NextCall
Spec == Init /\ [][Next]_vars

\* ------------------------------------------------------------------ what TLC checks on the model
ModelNoPanic     == NoPanic(run)
ModelProgress    == ProgressOrStop(run)
ModelTerminates  == Terminates(run, Len(input))
ModelInsideInput == pos <= Len(input) /\ \A i \in 1..Len(run.calls) : run.calls[i] <= Len(input)
\* the base files are valid: read intact, they yield their values and then end of stream
ModelBasesValid ==
  (phase = "done" /\ Len(vec.muts) = 0 /\ vec.trunc < 0 /\ (vec.fmt = "ogg" => vec.fix)) =>
     IF Parser(vec.fmt) THEN run.open \in {"value", "error"}
     ELSE run.open = "value" /\ run["end"] = "eof" /\ Len(run.calls) = Base(FB).nvals
\* and the Ogg base files consist of complete pages (their checksums are verified by the driver)
ASSUME OggBasesFramed ==
  \A fb \in {x \in BaseIds : x[1] = "ogg"} :
     LET w == OggWalk(BaseBytes(fb), 0) IN \E pg \in w : pg[2] = Len(BaseBytes(fb))

\* ------------------------------------------------------------------ emission
EmitVec ==
  phase = "done" =>
    PrintT(<<"VERIF_VEC", ToJson([fmt |-> vec.fmt, base |-> vec.base, patches |-> Patches(vec), trunc |-> vec.trunc,
                                  fix |-> vec.fix, n |-> Len(input), exp |-> run])>>)

BaseRecord(fb) ==
  LET L == Layout(fb) IN
  [fmt |-> fb[1], base |-> fb[2], bytes |-> BaseBytes(fb), nvals |-> Base(fb).nvals,
   fields |-> [i \in 1..Len(L) |-> [name |-> L[i].name, kind |-> L[i].kind, off |-> OffOf(L, i), w |-> Len(L[i].v)]]]
ASSUME EmitBases == \A fb \in BaseIds : PrintT(<<"VERIF_BASE", ToJson(BaseRecord(fb))>>)
=============================================================================
