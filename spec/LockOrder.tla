------------------------------ MODULE LockOrder ------------------------------
(* Deadlock freedom of concurrent PeerConnection use (C40, model part): every  *)
(* API call of the property's alphabet as the sequence of lock acquisitions     *)
(* and releases it performs (read from peerconnection.go, sctptransport.go,     *)
(* operations.go at the pinned commit), plus the operations-queue worker that   *)
(* runs checkNegotiationNeeded.  TLC explores all interleavings of up to        *)
(* MaxThreads concurrent calls with deadlock checking on.                       *)
(*   A(L) acquire L, R(L) release L                                             *)
EXTENDS Naturals, Sequences, FiniteSets, TLC

CONSTANTS Threads, CallNames

A(l) == <<"+", l>>
R(l) == <<"-", l>>
Script(c) ==
  CASE c = "AddTrack"        -> <<A("pc.mu"), A("ops.mu"), R("ops.mu"), R("pc.mu")>>          \* onNegotiationNeeded under pc.mu
    [] c = "RemoveTrack"     -> <<A("pc.mu"), A("ops.mu"), R("ops.mu"), R("pc.mu")>>
    [] c = "AddTransceiver"  -> <<A("pc.mu"), A("ops.mu"), R("ops.mu"), R("pc.mu")>>
    [] c = "CreateDataChannel" -> <<A("sctp.lock"), R("sctp.lock"), A("pc.mu"), A("ops.mu"), R("ops.mu"), R("pc.mu")>>
    [] c = "GetTransceivers" -> <<A("pc.mu"), R("pc.mu")>>
    [] c = "GetStats"        -> <<A("pc.mu"), A("sctp.lock"), R("sctp.lock"), R("pc.mu")>>
    [] c = "CreateOffer"     -> <<A("pc.mu"), A("sctp.lock"), R("sctp.lock"), R("pc.mu")>>
    [] c = "SetDescription"  -> <<A("pc.mu"), R("pc.mu"), A("pc.mu"), A("ops.mu"), R("ops.mu"), R("pc.mu"), A("ops.mu"), R("ops.mu")>>
    [] c = "Close"           -> <<A("pc.mu"), R("pc.mu"), A("pc.mu"), R("pc.mu"), A("sctp.lock"), R("sctp.lock")>>
    [] c = "NegNeededOp"     -> <<A("ops.mu"), R("ops.mu"), A("pc.mu"), A("sctp.lock"), R("sctp.lock"), R("pc.mu")>>   \* queue worker
    [] OTHER                 -> <<>>

VARIABLES call, ip, held
vars == <<call, ip, held>>
Locks == {"pc.mu", "sctp.lock", "ops.mu"}

Init == /\ call \in [Threads -> CallNames] /\ ip = [t \in Threads |-> 1] /\ held = [l \in Locks |-> "free"]
Step(t) ==
  /\ ip[t] <= Len(Script(call[t]))
  /\ LET op == Script(call[t])[ip[t]]
         l  == op[2]
     IN IF op[1] = "+"
        THEN held[l] = "free" /\ held' = [held EXCEPT ![l] = t]
        ELSE held[l] = t /\ held' = [held EXCEPT ![l] = "free"]
  /\ ip' = [ip EXCEPT ![t] = @ + 1]
  /\ UNCHANGED call
Finished == \A t \in Threads : ip[t] > Len(Script(call[t]))
Next == (\E t \in Threads : Step(t)) \/ (Finished /\ UNCHANGED vars)
\* a lock is only released by its holder and every thread ends holding nothing
HeldConsistent == \A l \in Locks : held[l] = "free" \/ held[l] \in Threads
EndsClean == Finished => \A l \in Locks : held[l] = "free"
=============================================================================
