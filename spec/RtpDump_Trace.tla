---------------------------- MODULE RtpDump_Trace ----------------------------
(* Trace specification for C36.  Lines recorded from the real               *)
(* pkg/media/rtpdump Writer and Reader, per input vector:                    *)
(*   hdr   NewWriter(w, Header)    h = the header passed (projected from the *)
(*                                 Go value), err = an error was returned    *)
(*   pkt   Writer.WritePacket(p)   p = the packet passed, err                *)
(*   read  NewReader + Next ...    what reading the written bytes returned   *)
(*   rec   the written bytes followed by a hand-built record header with     *)
(*         length field L and `tail` filler bytes; outcomes of the Next      *)
(*         calls up to and including the one that meets the raw record       *)
(* `w` remembers what was passed to the writer since the last reset.         *)
EXTENDS RtpDumpOps, TraceKit, SequencesExt

VARIABLES l, viol, cnt, w

EmptyW == [hdr |-> [none |-> TRUE], herr |-> FALSE, pkts |-> <<>>, perrs |-> <<>>]

NPk == Len(w.pkts)
\* nothing the format cannot hold was accepted by the writer (only then is a readable file promised)
NoneSlipped == /\ ~w.herr /\ HdrRepresentable(w.hdr)
               /\ \A i \in 1..NPk : w.perrs[i] \/ PktWritable(w.pkts[i])
Accepted == SelectIdx(NPk, LAMBDA i : ~w.perrs[i])

PredsHdr(e) == {
   P("C36", "AcceptsRepresentable",   HdrRepresentable(e.h),   ~e.err),
   P("C36", "RefusesUnrepresentable", HdrUnrepresentable(e.h), e.err) }

PredsPkt(e) == {
   P("C36", "AcceptsRepresentable",   PktRepresentable(e.p),   ~e.err),
   P("C36", "RefusesUnrepresentable", PktUnrepresentable(e.p), e.err) }

PredsRead(e) ==
  LET acc == Accepted IN {
   P("C36", "RoundTripHeader",  NoneSlipped, e.open = "ok" /\ HdrMatches(w.hdr, e.h)),
   P("C36", "RoundTripPackets", NoneSlipped /\ e.open = "ok",
        /\ Len(e.pkts) = Len(acc)
        /\ \A j \in 1..Len(acc) : PktMatches(w.pkts[acc[j]], e.pkts[j])),
   P("C36", "RoundTripEndsAtEof", NoneSlipped /\ e.open = "ok", e["end"] = "eof") }

PredsRec(e) ==
  LET k == NPk
      reached == Len(e.outs) = k + 1 /\ \A j \in 1..k : e.outs[j].k = "val"
  IN {
   \* the packets in front of the raw record are returned as written
   P("C36", "PrefixBeforeRawRecord", NoneSlipped,
        /\ Len(e.outs) >= k
        /\ \A j \in 1..k : e.outs[j].k = "val" /\ PktMatches(w.pkts[j], e.outs[j])),
   \* "rejects" is read weakly: no packet is returned for it (any error, including io.EOF, counts)
   P("C36", "RejectsShortLength", reached /\ ReaderMustReject(e.L), e.outs[k + 1].k # "val"),
   \* the other direction of the round trip: a well-formed record with all its bytes present is returned
   P("C36", "AcceptsWellFormed", reached /\ e.L >= RecHdrLen /\ e.tail >= e.L - RecHdrLen,
        /\ e.outs[k + 1].k = "val" /\ e.outs[k + 1].len = e.L - RecHdrLen
        /\ e.outs[k + 1].rtcp = (e.plen = 0)) }

\* viol is kept as a sequence (same JSON array in the report): TLC's set union is linear in the size of
\* the accumulated set, which makes a trace with thousands of known-finding records quadratic
Init == l = 1 /\ viol = <<>> /\ cnt = EmptyCount /\ w = EmptyW

Step ==
  /\ l <= Len(Trace)
  /\ LET e == Trace[l] IN
       IF e.ev = "reset" THEN w' = EmptyW /\ UNCHANGED <<viol, cnt>>
       ELSE LET ps == CASE e.ev = "hdr"  -> PredsHdr(e)
                        [] e.ev = "pkt"  -> PredsPkt(e)
                        [] e.ev = "read" -> PredsRead(e)
                        [] e.ev = "rec"  -> PredsRec(e)
                        [] OTHER -> {}
            IN /\ viol' = viol \o SetToSeq(Failures(ps, e, l))
               /\ cnt'  = Count(cnt, ps)
               /\ w' = CASE e.ev = "hdr" -> [hdr |-> e.h, herr |-> e.err, pkts |-> <<>>, perrs |-> <<>>]
                         [] e.ev = "pkt" -> [w EXCEPT !.pkts = Append(@, e.p), !.perrs = Append(@, e.err)]
                         [] OTHER -> w
  /\ l' = l + 1

Done == l = Len(Trace) + 1 /\ UNCHANGED <<l, viol, cnt, w>>
Next == Step \/ Done
Rep  == Report(l, viol, cnt)
=============================================================================
