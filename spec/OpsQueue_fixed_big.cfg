CONSTANTS
  Impl = "fixed"
  Enqs = {"a", "b", "d"}
  SelfEnq = {"a"}
  Waiters = {"w", "v"}
  Closers = {"c"}
  MaxGen = 6
SPECIFICATION Spec
INVARIANTS TypeOK Serial Fifo NoDuplicates DoneCovers NothingAfterClose RunsEverythingAccepted
CHECK_DEADLOCK FALSE
