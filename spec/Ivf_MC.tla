------------------------------- MODULE Ivf_MC -------------------------------
(* Constant sets for the configurations of Ivf.tla (tuples cannot be written *)
(* in a .cfg file).                                                          *)
EXTENDS Ivf

AllCodecs  == {"VP8", "VP9f", "VP9n", "AV1"}
\* assembly-focused exhaustive runs: every codec, lossy and non-key-first inputs, one timebase
MtusSmall  == {12, 40}
RatesOne   == {<<1, 30>>}
StartsOne  == {<<1, 0>>}
DimsOne    == {<<640, 480>>}
\* timestamp / header focused exhaustive run
RatesAll   == {<<1, 30>>, <<1, 90000>>, <<1, 1000>>, <<1001, 30000>>, <<30, 1>>, <<2, 25>>}
StartsWrap == {<<0, 0>>, <<1, 0>>, <<65535, 62536>>, <<65535, 65535>>, <<32767, 65000>>, <<40000, 123>>}
DimsAll    == {<<640, 480>>, <<1, 1>>, <<65535, 65535>>, <<1920, 1080>>}
DimsTwo    == {<<640, 480>>, <<65535, 1>>}
CtorsAll   == {"buf", "memseek", "file", "filewith"}
DeltasPts  == {1, 89, 90, 3000, 3003, 90000, 262144}
DeltasPtsT == {89, 90, 3000, 262144}
\* frame sizes relative to the reader's chunk limit: one short of it, exactly, one past it, and well beyond
BigDeltasAll == {-1, 0, 1, 4096}
NoDeltas   == {}
\* simulation (vector generation)
MtusSim    == {12, 13, 20, 64, 200, 1188, 1200}
DeltasSim  == {1, 90, 1500, 3000, 3003, 6000}
SizesSim   == {1, 2, 9, 10, 11, 127, 128, 129}
=============================================================================
