------------------------------ MODULE Candidate ------------------------------
(* Generative model for C25: what happens to an ICE candidate between        *)
(* ICECandidate.ToJSON on one side and the ICE agent on the other:           *)
(*                                                                           *)
(*   ice.Candidate c0                                                        *)
(*     -- newICECandidateFromICE (setExtensions: extension list -> string) --*)
(*   webrtc.ICECandidate                                                     *)
(*     -- ToJSON = ToICE (exportExtensions: the hand-written splitter,       *)
(*        AddExtension) ; Marshal -----------------------------------------> *)
(*   "candidate:..." string (tokens)                                         *)
(*     -- AddICECandidate: ice.UnmarshalCandidate ; ufrag filter ;           *)
(*        newICECandidateFromICE ; ICETransport.AddRemoteCandidate: ToICE    *)
(*        again ; Agent.AddRemoteCandidate ---------------------------------> *)
(*   remote candidate of the agent                                           *)
(*                                                                           *)
(* The extension string is a sequence of characters and the splitter of      *)
(* icecandidate.go:exportExtensions is transcribed as an automaton that      *)
(* consumes it one character per step; the fixed part of the candidate line  *)
(* is handled at token level (pion/ice's Marshal / UnmarshalCandidate).      *)
(* Impl = "asis" describes the pinned code, Impl = "intended" repairs the    *)
(* two places where it loses information (Marshal omits a related address    *)
(* whose port is 0; AddExtension overwrites an extension with the same key). *)
(* TLC checks the normative operators of CandidateOps on every stage.        *)
EXTENDS CandidateOps, Json, Randomization, IOUtils

CONSTANTS Impl,
          Vias,       \* how c0 is built: "new" (ice.NewCandidate* + AddExtension) / "raw" (ice.UnmarshalCandidate)
          Types, Protos, AddrForms, Ports, Prios, Comps, Founds, Rels, TcpTypes,
          ExtKeys, ExtVals, MaxExts

VARIABLES vec,    \* the input vector
          c0,     \* the candidate as pion represents it (Build(vec)); never changes
          st,     \* stage
          cur,    \* the ice.Candidate in hand
          ein,    \* Extensions() of the candidate that was wrapped last
          estr,   \* ICECandidate.extensions (characters)
          sp,     \* registers of the splitter loop: [i, start, key]
          acc,    \* the candidate under construction in ToICE: [exts, tcp, err]
          toks,   \* the marshalled candidate line, split at single spaces
          json,   \* what ice.UnmarshalCandidate(ToJSON().Candidate) gives
          res     \* "" / "added" / "dropped" / "ignored" / "error"

vars == <<vec, c0, st, cur, ein, estr, sp, acc, toks, json, res>>

\* ---- tokens and their characters -------------------------------------------
CharsOf(t) ==
  CASE t = ""             -> <<>>
    [] t = "generation"   -> <<"g">>
    [] t = "network-cost" -> <<"n", "c">>
    [] t = "x"            -> <<"x">>
    [] t = "ufrag"        -> <<"u">>
    [] t = "tcptype"      -> <<"t">>
    [] t = "0"            -> <<"0">>
    [] t = "OWN"          -> <<"O">>           \* the ufrag of the applied remote description
    [] t = "FOREIGN"      -> <<"F", "F">>      \* any other ufrag
    [] t = "UTF8"         -> <<"c", "e2">> \* a value ending in a character of more than one byte (the driver uses "caf\u00e9")
    [] t = "active"       -> <<"a">>
    [] t = "passive"      -> <<"p">>
    [] t = "so"           -> <<"s", "o">>
AllToks == {"", "generation", "network-cost", "x", "ufrag", "tcptype", "0", "OWN", "FOREIGN", "UTF8", "active", "passive", "so"}
TokOf(cs) == IF \E t \in AllToks : CharsOf(t) = cs THEN CHOOSE t \in AllToks : CharsOf(t) = cs ELSE "?"

\* candidateBase.Extensions(): the TCP type is reported as the first extension
Extensions(c) == (IF c.tcptype # "" THEN << <<"tcptype", c.tcptype>> >> ELSE <<>>) \o c.exts

\* ICECandidate.setExtensions: key SP value, joined by SP
RECURSIVE PrintExts(_)
PrintExts(es) ==
  IF es = <<>> THEN <<>>
  ELSE LET p == CharsOf(es[1][1]) \o <<" ">> \o CharsOf(es[1][2]) IN
       IF Len(es) = 1 THEN p ELSE p \o <<" ">> \o PrintExts(Tail(es))

\* candidateBase.AddExtension on a = [exts, tcp, err]
AddExt(a, k, v) ==
  IF a.err THEN a
  ELSE IF k = "tcptype"
       THEN IF v \in {"active", "passive", "so"} THEN [a EXCEPT !.tcp = v] ELSE [a EXCEPT !.err = TRUE]
  ELSE IF k = "" THEN [a EXCEPT !.err = TRUE]
  ELSE IF Impl = "asis" /\ \E i \in DOMAIN a.exts : a.exts[i][1] = k
       THEN LET i == CHOOSE i \in DOMAIN a.exts : a.exts[i][1] = k /\ \A j \in 1..(i - 1) : a.exts[j][1] # k
            IN [a EXCEPT !.exts[i] = <<k, v>>]          \* "we only set the first one"
  ELSE [a EXCEPT !.exts = Append(@, <<k, v>>)]

RECURSIVE FoldAdd(_, _)
FoldAdd(a, es) == IF es = <<>> THEN a ELSE FoldAdd(AddExt(a, es[1][1], es[1][2]), Tail(es))

\* ---- the candidate pion represents for a vector ----------------------------
RelAddr(v) == CASE v.rel = "none" -> "" [] v.rel = "port0" -> "any" [] OTHER -> "ra"
RelPort(v) == CASE v.rel = "full1" -> "1" [] v.rel = "full65535" -> "65535" [] OTHER -> "0"

Build(v) ==
  [foundation |-> IF v.found = "computed" THEN "crc" ELSE v.found,
   component  |-> v.comp,
   protocol   |-> IF v.addr = "mdns" THEN "udp" ELSE v.proto,   \* NewCandidateHost: "until resolved assume UDPv4"
   priority   |-> IF v.prio = "computed" THEN "pcalc" ELSE v.prio,
   address    |-> v.addr, port |-> v.port, type |-> v.typ,
   raddr      |-> RelAddr(v), rport |-> RelPort(v),
   tcptype    |-> IF v.typ = "host" THEN v.tcptype ELSE "",
   exts       |-> IF v.via = "new" THEN FoldAdd([exts |-> <<>>, tcp |-> "", err |-> FALSE], v.exts).exts ELSE v.exts]

NKey(es, k) == Cardinality({i \in DOMAIN es : es[i][1] = k})
Valid(v) ==
  /\ v.typ = "host" => v.rel = "none"
  /\ v.typ # "host" => v.tcptype = "" /\ v.addr # "mdns"     \* pion/ice drops tcptype on non-host when parsing
  /\ NKey(v.exts, "ufrag") <= 1
  /\ v.via = "new" => \A i, j \in DOMAIN v.exts : i # j => v.exts[i][1] # v.exts[j][1]   \* AddExtension cannot build duplicates
  /\ v.via = "raw" => v.found # "computed"

ExtLists(k) == [1..k -> ExtKeys \X ExtVals]
SpaceOf(types, addrs, rels, tcps, k) ==
  [via : Vias, typ : types, proto : Protos, addr : addrs, port : Ports, prio : Prios, comp : Comps,
   found : Founds, rel : rels, tcptype : tcps, exts : ExtLists(k)]
HostSpace(k)    == SpaceOf(Types \cap {"host"}, AddrForms, {"none"}, TcpTypes, k)
NonHostSpace(k) == SpaceOf(Types \ {"host"}, AddrForms \ {"mdns"}, Rels, {""}, k)

\* exhaustive space (Candidate_MC*.cfg).  (These two sets take a dummy argument so that TLC does not
\* evaluate them eagerly as constants in the configurations that do not use them.)
VecSpace(dummy) == {v \in UNION {HostSpace(k) \cup NonHostSpace(k) : k \in 0..MaxExts} : Valid(v)}

\* seeded sample of the full space, stratified by type class and extension-list length (Candidate_Vec.cfg)
NVec(dummy) == atoi(IOEnv.VERIF_NVEC)
RECURSIVE Pow(_, _)
Pow(b, k) == IF k = 0 THEN 1 ELSE b * Pow(b, k - 1)
C(S) == Cardinality(S)
SizeOf(types, addrs, rels, tcps, k) ==          \* |SpaceOf(...)| without enumerating it
  C(Vias) * C(types) * C(Protos) * C(addrs) * C(Ports) * C(Prios) * C(Comps) * C(Founds) * C(rels) * C(tcps)
  * Pow(C(ExtKeys) * C(ExtVals), k)
Min(a, b) == IF a < b THEN a ELSE b
HostQuota(k)    == Min((NVec(0) * 2) \div (5 * (MaxExts + 1)) + 1, SizeOf(Types \cap {"host"}, AddrForms, {"none"}, TcpTypes, k))
NonHostQuota(k) == Min((NVec(0) * 3) \div (5 * (MaxExts + 1)) + 1, SizeOf(Types \ {"host"}, AddrForms \ {"mdns"}, Rels, {""}, k))
\* (a disjunction of memberships rather than one big union: TLC enumerates each sample as it is)
InSample(v) == \E k \in 0..MaxExts : \/ v \in RandomSubset(HostQuota(k), HostSpace(k))
                                      \/ v \in RandomSubset(NonHostQuota(k), NonHostSpace(k))

NoCand == [none |-> TRUE]
Blank  == /\ st = "wrap1" /\ cur = c0 /\ ein = <<>> /\ estr = <<>> /\ sp = [i |-> 1, start |-> 1, key |-> <<>>]
          /\ acc = [exts |-> <<>>, tcp |-> "", err |-> FALSE] /\ toks = <<>> /\ json = NoCand /\ res = ""

Init    == vec \in VecSpace(0)  /\ c0 = Build(vec) /\ Blank
InitVec == InSample(vec) /\ Valid(vec) /\ c0 = Build(vec) /\ Blank

\* ---- newICECandidateFromICE -------------------------------------------------
Wrap ==
  /\ st \in {"wrap1", "wrap2"}
  /\ ein' = Extensions(cur)
  /\ estr' = PrintExts(Extensions(cur))
  /\ sp' = [i |-> 1, start |-> 1, key |-> <<>>]
  \* ToICE: only the host configuration carries the TCP type; extensions are added afterwards
  /\ acc' = [exts |-> <<>>, tcp |-> IF cur.type = "host" THEN cur.tcptype ELSE "", err |-> FALSE]
  /\ st' = IF st = "wrap1" THEN "split1" ELSE "split2"
  /\ UNCHANGED <<vec, c0, cur, toks, json, res>>

\* ---- ICECandidate.exportExtensions: one loop iteration per step -------------
\*   for i, start := 0, 0; i < len(extensions); i++ {
\*     switch { case extensions[i] == ' ': field = extensions[start:i]; start = i + 1
\*              case i == len(extensions)-1: field = extensions[start:]
\*              default: continue }
\*     hasKey := ext.Key != "" ; if !hasKey { ext.Key = field } else { ext.Value = field }
\*     if hasKey || i == len(extensions)-1 { AddExtension(ext) (error: return) ; ext = {} } }
Split ==
  /\ st \in {"split1", "split2"}
  /\ LET L == Len(estr) IN
     IF acc.err
     THEN /\ res' = "error" /\ st' = "done" /\ UNCHANGED <<cur, sp, acc>>
     ELSE IF sp.i > L
     THEN /\ cur' = [cur EXCEPT !.tcptype = acc.tcp, !.exts = acc.exts]
          /\ st' = IF st = "split1" THEN "marshal" ELSE "agent"
          /\ UNCHANGED <<sp, acc, res>>
     ELSE LET i     == sp.i
              space == estr[i] = " "
              last  == i = L
          IN IF ~space /\ ~last
             THEN /\ sp' = [sp EXCEPT !.i = i + 1] /\ UNCHANGED <<cur, acc, res, st>>
             ELSE LET field  == IF space THEN SubSeq(estr, sp.start, i - 1) ELSE SubSeq(estr, sp.start, L)
                      start2 == IF space THEN i + 1 ELSE sp.start
                      hasKey == sp.key # <<>>
                      key2   == IF hasKey THEN sp.key ELSE field
                      val2   == IF hasKey THEN field ELSE <<>>
                      add    == hasKey \/ last
                  IN /\ acc' = IF add THEN AddExt(acc, TokOf(key2), TokOf(val2)) ELSE acc
                     /\ sp' = [i |-> i + 1, start |-> start2, key |-> IF add THEN <<>> ELSE key2]
                     /\ UNCHANGED <<cur, res, st>>
  /\ UNCHANGED <<vec, c0, ein, estr, toks, json>>

\* ---- candidateBase.Marshal ---------------------------------------------------
EmitRel(c) == IF Impl = "asis" THEN c.raddr # "" /\ c.rport # "0"      \* r.Address != "" && r.Port != 0
                               ELSE c.raddr # "" \/ c.rport # "0"
Flatten(es) == [k \in 1..(2 * Len(es)) |-> es[(k + 1) \div 2][IF k % 2 = 1 THEN 1 ELSE 2]]
MarshalToks(c) ==
  <<IF c.foundation = "empty" THEN "" ELSE c.foundation, c.component, c.protocol, c.priority,
    c.address, c.port, "typ", c.type>>
  \o (IF EmitRel(c) THEN <<"raddr", c.raddr, "rport", c.rport>> ELSE <<>>)
  \o Flatten(Extensions(c))

Marshal ==
  /\ st = "marshal"
  /\ toks' = MarshalToks(cur)
  /\ st' = "parse"
  /\ UNCHANGED <<vec, c0, cur, ein, estr, sp, acc, json, res>>

\* ---- ice.UnmarshalCandidate (token level) ------------------------------------
Unmarshal(t) ==
  LET n      == Len(t)
      hasRel == n >= 12 /\ t[9] = "raddr" /\ t[11] = "rport"
      pos    == IF hasRel THEN 13 ELSE 9
      np     == (n - pos + 2) \div 2
      pairs  == [j \in 1..np |-> <<t[pos + 2 * (j - 1)], IF pos + 2 * (j - 1) + 1 <= n THEN t[pos + 2 * (j - 1) + 1] ELSE "">>]
      tcpIdx == {j \in 1..np : pairs[j][1] = "tcptype"}
      tcpraw == IF tcpIdx = {} THEN "" ELSE pairs[CHOOSE j \in tcpIdx : \A k \in tcpIdx : k <= j][2]
      typ    == t[8]
  IN [foundation |-> IF t[1] = "" THEN "empty" ELSE t[1],
      component  |-> t[2],
      protocol   |-> IF typ = "host" /\ t[5] = "mdns" THEN "udp" ELSE t[3],
      priority   |-> t[4], address |-> t[5], port |-> t[6], type |-> typ,
      raddr      |-> IF hasRel THEN t[10] ELSE "", rport |-> IF hasRel THEN t[12] ELSE "0",
      tcptype    |-> IF typ = "host" THEN tcpraw ELSE "",        \* only the host constructor is given the TCP type
      exts       |-> SelectSeq(pairs, LAMBDA p : p[1] # "tcptype")]

Parse ==
  /\ st = "parse"
  /\ json' = Unmarshal(toks)
  /\ cur' = Unmarshal(toks)
  /\ st' = "ufrag"
  /\ UNCHANGED <<vec, c0, ein, estr, sp, acc, toks, res>>

\* ---- PeerConnection.AddICECandidate: "reject candidates from old generations" --
UfragFilter ==
  /\ st = "ufrag"
  /\ LET hits == {i \in DOMAIN cur.exts : cur.exts[i][1] = "ufrag"} IN
     IF hits # {} /\ cur.exts[CHOOSE i \in hits : \A j \in hits : i <= j][2] # "OWN"
     THEN res' = "dropped" /\ st' = "done"
     ELSE res' = res /\ st' = "wrap2"
  /\ UNCHANGED <<vec, c0, cur, ein, estr, sp, acc, toks, json>>

\* ---- ice.Agent.AddRemoteCandidate ---------------------------------------------
Agent ==
  /\ st = "agent"
  /\ res' = IF cur.tcptype = "active" THEN "ignored"                     \* "will probe server passive ones"
            ELSE IF cur.type = "host" /\ cur.address = "mdns" THEN "ignored"   \* resolved asynchronously / mDNS disabled
            ELSE "added"
  /\ st' = "done"
  /\ UNCHANGED <<vec, c0, cur, ein, estr, sp, acc, toks, json>>

Next   == Wrap \/ Split \/ Marshal \/ Parse \/ UfragFilter \/ Agent
NoNext == FALSE /\ UNCHANGED vars
Spec   == Init /\ [][Next]_vars

\* ---- what TLC checks on the model ---------------------------------------------
\* Parse(Print(exts)) = exts: what the splitter rebuilt is what was printed
ModelSplitInverse == st \in {"marshal", "agent"} => Extensions(cur) = ein
ModelJsonRoundTrip  == json # NoCand => RoundTrip(c0, json)
ModelAgentRoundTrip == res = "added" => RoundTrip(c0, cur)
ModelAccepted       == res # "error"
ModelUfrag          == st = "done" => (HasForeignUfrag(c0, "ufrag", {"OWN"}) <=> res = "dropped")
ModelTokens         == \A i \in DOMAIN estr : estr[i] \in {" ", "g", "n", "c", "x", "u", "t", "0", "O", "F", "a", "p", "s", "o"}

EmitVec == (st = "wrap1") => PrintT(<<"VERIF_VEC", ToJson(vec)>>)
=============================================================================
