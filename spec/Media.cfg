CONSTANT NPkts = 3
INIT Init
NEXT Next
INVARIANTS OnlyWhatWasWritten EmitVec
CHECK_DEADLOCK FALSE
