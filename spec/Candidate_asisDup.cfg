\* the pinned code: TLC must exhibit the extension lost when two extensions have the same key (no port-0 related address here)
CONSTANTS
  Impl = "asis"
  Vias = {"new", "raw"}
  Types = {"host", "srflx"}
  Protos = {"udp"}
  AddrForms = {"v4"}
  Ports = {"1"}
  Prios = {"1"}
  Comps = {"1"}
  Founds = {"1"}
  Rels = {"none", "full1"}
  TcpTypes = {"", "passive"}
  ExtKeys = {"generation", "ufrag"}
  ExtVals = {"", "0", "OWN"}
  MaxExts = 2
INIT Init
NEXT Next
INVARIANTS ModelSplitInverse ModelJsonRoundTrip ModelAgentRoundTrip ModelAccepted ModelUfrag ModelTokens
CHECK_DEADLOCK FALSE
