----------------------------- MODULE CandidateOps ----------------------------
(* ICE candidates and their signaling form: normative operators for C25.     *)
(*                                                                           *)
(* A candidate is a record                                                   *)
(*   [foundation, component, protocol, priority, address, port, type,        *)
(*    raddr, rport, tcptype, exts]                                           *)
(* exts is a sequence of <<key, value>> pairs (RFC 8839 5.1 extension        *)
(* attributes).  A candidate without related address has raddr = "" and the  *)
(* zero port.  Only equality is used on the field values, so the same        *)
(* operators judge the model (Candidate.tla: symbolic values) and the traces *)
(* recorded from pion (Candidate_Trace.tla: the strings / numbers written by *)
(* the Go projector).                                                        *)
EXTENDS Naturals, Sequences, FiniteSets, TLC

\* the fields the property enumerates
Fields == {"foundation", "component", "protocol", "priority", "address", "port", "type",
           "raddr", "rport", "tcptype", "exts"}

\* "the same extensions": the same (key, value) pairs with the same multiplicities.  The order is
\* not demanded (pion/ice itself compares extension lists as multisets, and it moves tcptype to
\* the front), so a refactor that reorders extensions does not raise an alarm.
SameBag(s, t) ==
  /\ Len(s) = Len(t)
  /\ \A i \in DOMAIN s :
        Cardinality({j \in DOMAIN s : s[j] = s[i]}) = Cardinality({j \in DOMAIN t : t[j] = s[i]})

FieldSame(f, a, b) == IF f = "exts" THEN SameBag(a.exts, b.exts) ELSE a[f] = b[f]

\* "parses back to a candidate with the same foundation, component, protocol, priority, address,
\*  port, type, related address/port, TCP type and extensions"
RoundTrip(a, b) == \A f \in Fields : FieldSame(f, a, b)

\* "any candidate whose ufrag extension names no ufrag in the applied remote description"
HasUfrag(c, key)              == \E i \in DOMAIN c.exts : c.exts[i][1] = key
HasForeignUfrag(c, key, ufrs) == /\ HasUfrag(c, key)
                                 /\ \A i \in DOMAIN c.exts : c.exts[i][1] = key => c.exts[i][2] \notin ufrs

HasDupKey(c) == \E i, j \in DOMAIN c.exts : i # j /\ c.exts[i][1] = c.exts[j][1]
HasEmptyValue(c) == \E i \in DOMAIN c.exts : c.exts[i][2] = ""
=============================================================================
