------------------------------ MODULE OpsQueue ------------------------------
(* pion/webrtc operations.go — the PeerConnection's internal work queue (C05) *)
(*                                                                            *)
(* One label per segment between two yield points of the instrumented code    *)
(* (hooks "ops.*" in operations.go), so that every path of this model is a    *)
(* schedule the gate controller can drive through the real goroutines.        *)
(*                                                                            *)
(*   Enqueue      : one critical section under o.mu (tryEnqueue)              *)
(*   Done         : tryEnqueue(waiter) | wg.Wait                              *)
(*   GracefulClose: mark closed, capture busyCh | <-busyCh                    *)
(*   start        : pop | fn() ... pop | negotiation tail | deferred hand-off *)
(*                                                                            *)
(* Impl = "asis"  : the pinned code.                                          *)
(* Impl = "fixed" : the repair (worker is restarted for a non-empty queue     *)
(*                  even when closed; GracefulClose waits for every worker    *)
(*                  generation; Done on a closed queue waits for the worker). *)
EXTENDS Naturals, Sequences, FiniteSets, TLC, Json

CONSTANTS Impl, Enqs, SelfEnq, Waiters, Closers, MaxGen
\* Enqs: plain enqueuers (each enqueues one op named after itself);
\* SelfEnq \subseteq Enqs: ops that enqueue a child op ("c_" \o name) while they run.

Child(e) == "c_" \o e
WaitOp(w) == "w_" \o w
Ops == Enqs \cup {Child(e) : e \in SelfEnq} \cup {WaitOp(w) : w \in Waiters}
GenName(i) == "k" \o ToString(i)
Gens == {GenName(i) : i \in 1..MaxGen}
GenIdx(g) == CHOOSE i \in 1..MaxGen : GenName(i) = g

(* --algorithm OpsQueue {
variables queue = <<>>,          \* o.ops
          busy = FALSE,          \* o.busyCh # nil
          closed = FALSE,        \* o.isClosed
          spawned = 0,           \* worker goroutines started so far (go o.start())
          chClosed = 0,          \* generation whose busyCh was closed last (channels close in order)
          curGen = 0,            \* generation owning the current o.busyCh
          attempts = <<>>,       \* every tryEnqueue in lock order: <<op, accepted, afterCloseReturned>>
          started = <<>>,        \* ops in the order fn() began
          ended = {},            \* ops whose fn() returned
          running = {},          \* ops between start and end
          closeReturned = FALSE,
          doneReturned = [w \in Waiters |-> FALSE],
          doneCut = [w \in Waiters |-> 0];   \* Len(attempts) when w's Done call took the lock

define {
  Accepted == SelectSeq(attempts, LAMBDA a : a[2])
  AcceptedOps == {Accepted[i][1] : i \in 1..Len(Accepted)}
}

macro TryEnqueue(op, ok) {
  if (closed) { ok := FALSE; attempts := Append(attempts, <<op, FALSE, closeReturned>>) }
  else {
    ok := TRUE;
    queue := Append(queue, op);
    attempts := Append(attempts, <<op, TRUE, closeReturned>>);
    if (~busy) { busy := TRUE; spawned := spawned + 1; curGen := spawned }
  }
}

\* ---- clients -------------------------------------------------------------
fair process (E \in Enqs) variable oke = FALSE; {
  e1: TryEnqueue(self, oke);                              \* gate ops.Enqueue.enter -> return
}

fair process (W \in Waiters) variable okw = FALSE; {      \* Done()
  w1: doneCut[self] := Len(attempts);
      TryEnqueue(WaitOp(self), okw);                       \* -> gate ops.Done.enqueued
  w2: if (okw) { await WaitOp(self) \in ended }            \* wg.Wait()
      else if (Impl = "fixed") { await ~busy };            \* repaired: wait for the worker to go idle
      doneReturned[self] := TRUE;
}

fair process (C \in Closers) variable capt = 0; {         \* GracefulClose()
  c1: if (closed) { goto cEnd }
      else { closed := TRUE; capt := IF busy THEN curGen ELSE 0 };   \* -> gate ops.GracefulClose.marked
  c2: if (Impl = "fixed") { await ~busy }                  \* loop over worker generations
      else { await capt = 0 \/ chClosed >= capt };         \* <-busyCh
      closeReturned := TRUE;
  cEnd: skip;
}

\* ---- the worker goroutine of generation self (go o.start()) --------------
fair process (K \in Gens) variable cur = "none"; {
  kSpawn:   await spawned >= GenIdx(self);                         \* goroutine exists, held at ops.start.enter
  kEnter:   if (queue # <<>>) { cur := Head(queue); queue := Tail(queue) }     \* pop()
            else { goto kDrained };
  kRun:     started := Append(started, cur);               \* gate ops.start.run -> op body begins
            running := running \cup {cur};
  kMid:     \* gate op.mid (in the op body): a self-enqueuing op enqueues its child, the body ends
            if (cur \in SelfEnq) {
              if (~closed) { queue := Append(queue, Child(cur));
                             attempts := Append(attempts, <<Child(cur), TRUE, closeReturned>>) }
              else { attempts := Append(attempts, <<Child(cur), FALSE, closeReturned>>) }
            };
            running := running \ {cur};
            ended := ended \cup {cur};
  kPop:     \* gate ops.start.next -> pop()
            if (queue # <<>>) { cur := Head(queue); queue := Tail(queue); goto kRun }
            else { cur := "none" };
  kDrained: skip;                                          \* gate ops.start.drained: negotiation tail
  kDefer:   chClosed := GenIdx(self);                              \* gate ops.start.defer: deferred hand-off
            if (queue = <<>> \/ (closed /\ Impl = "asis")) { busy := FALSE }
            else { spawned := spawned + 1; curGen := spawned };
}
} *)
\* BEGIN TRANSLATION
VARIABLES pc, queue, busy, closed, spawned, chClosed, curGen, attempts, 
          started, ended, running, closeReturned, doneReturned, doneCut

(* define statement *)
Accepted == SelectSeq(attempts, LAMBDA a : a[2])
AcceptedOps == {Accepted[i][1] : i \in 1..Len(Accepted)}

VARIABLES oke, okw, capt, cur

vars == << pc, queue, busy, closed, spawned, chClosed, curGen, attempts, 
           started, ended, running, closeReturned, doneReturned, doneCut, oke, 
           okw, capt, cur >>

ProcSet == (Enqs) \cup (Waiters) \cup (Closers) \cup (Gens)

Init == (* Global variables *)
        /\ queue = <<>>
        /\ busy = FALSE
        /\ closed = FALSE
        /\ spawned = 0
        /\ chClosed = 0
        /\ curGen = 0
        /\ attempts = <<>>
        /\ started = <<>>
        /\ ended = {}
        /\ running = {}
        /\ closeReturned = FALSE
        /\ doneReturned = [w \in Waiters |-> FALSE]
        /\ doneCut = [w \in Waiters |-> 0]
        (* Process E *)
        /\ oke = [self \in Enqs |-> FALSE]
        (* Process W *)
        /\ okw = [self \in Waiters |-> FALSE]
        (* Process C *)
        /\ capt = [self \in Closers |-> 0]
        (* Process K *)
        /\ cur = [self \in Gens |-> "none"]
        /\ pc = [self \in ProcSet |-> CASE self \in Enqs -> "e1"
                                        [] self \in Waiters -> "w1"
                                        [] self \in Closers -> "c1"
                                        [] self \in Gens -> "kSpawn"]

e1(self) == /\ pc[self] = "e1"
            /\ IF closed
                  THEN /\ oke' = [oke EXCEPT ![self] = FALSE]
                       /\ attempts' = Append(attempts, <<self, FALSE, closeReturned>>)
                       /\ UNCHANGED << queue, busy, spawned, curGen >>
                  ELSE /\ oke' = [oke EXCEPT ![self] = TRUE]
                       /\ queue' = Append(queue, self)
                       /\ attempts' = Append(attempts, <<self, TRUE, closeReturned>>)
                       /\ IF ~busy
                             THEN /\ busy' = TRUE
                                  /\ spawned' = spawned + 1
                                  /\ curGen' = spawned'
                             ELSE /\ TRUE
                                  /\ UNCHANGED << busy, spawned, curGen >>
            /\ pc' = [pc EXCEPT ![self] = "Done"]
            /\ UNCHANGED << closed, chClosed, started, ended, running, 
                            closeReturned, doneReturned, doneCut, okw, capt, 
                            cur >>

E(self) == e1(self)

w1(self) == /\ pc[self] = "w1"
            /\ doneCut' = [doneCut EXCEPT ![self] = Len(attempts)]
            /\ IF closed
                  THEN /\ okw' = [okw EXCEPT ![self] = FALSE]
                       /\ attempts' = Append(attempts, <<(WaitOp(self)), FALSE, closeReturned>>)
                       /\ UNCHANGED << queue, busy, spawned, curGen >>
                  ELSE /\ okw' = [okw EXCEPT ![self] = TRUE]
                       /\ queue' = Append(queue, (WaitOp(self)))
                       /\ attempts' = Append(attempts, <<(WaitOp(self)), TRUE, closeReturned>>)
                       /\ IF ~busy
                             THEN /\ busy' = TRUE
                                  /\ spawned' = spawned + 1
                                  /\ curGen' = spawned'
                             ELSE /\ TRUE
                                  /\ UNCHANGED << busy, spawned, curGen >>
            /\ pc' = [pc EXCEPT ![self] = "w2"]
            /\ UNCHANGED << closed, chClosed, started, ended, running, 
                            closeReturned, doneReturned, oke, capt, cur >>

w2(self) == /\ pc[self] = "w2"
            /\ IF okw[self]
                  THEN /\ WaitOp(self) \in ended
                  ELSE /\ IF Impl = "fixed"
                             THEN /\ ~busy
                             ELSE /\ TRUE
            /\ doneReturned' = [doneReturned EXCEPT ![self] = TRUE]
            /\ pc' = [pc EXCEPT ![self] = "Done"]
            /\ UNCHANGED << queue, busy, closed, spawned, chClosed, curGen, 
                            attempts, started, ended, running, closeReturned, 
                            doneCut, oke, okw, capt, cur >>

W(self) == w1(self) \/ w2(self)

c1(self) == /\ pc[self] = "c1"
            /\ IF closed
                  THEN /\ pc' = [pc EXCEPT ![self] = "cEnd"]
                       /\ UNCHANGED << closed, capt >>
                  ELSE /\ closed' = TRUE
                       /\ capt' = [capt EXCEPT ![self] = IF busy THEN curGen ELSE 0]
                       /\ pc' = [pc EXCEPT ![self] = "c2"]
            /\ UNCHANGED << queue, busy, spawned, chClosed, curGen, attempts, 
                            started, ended, running, closeReturned, 
                            doneReturned, doneCut, oke, okw, cur >>

c2(self) == /\ pc[self] = "c2"
            /\ IF Impl = "fixed"
                  THEN /\ ~busy
                  ELSE /\ capt[self] = 0 \/ chClosed >= capt[self]
            /\ closeReturned' = TRUE
            /\ pc' = [pc EXCEPT ![self] = "cEnd"]
            /\ UNCHANGED << queue, busy, closed, spawned, chClosed, curGen, 
                            attempts, started, ended, running, doneReturned, 
                            doneCut, oke, okw, capt, cur >>

cEnd(self) == /\ pc[self] = "cEnd"
              /\ TRUE
              /\ pc' = [pc EXCEPT ![self] = "Done"]
              /\ UNCHANGED << queue, busy, closed, spawned, chClosed, curGen, 
                              attempts, started, ended, running, closeReturned, 
                              doneReturned, doneCut, oke, okw, capt, cur >>

C(self) == c1(self) \/ c2(self) \/ cEnd(self)

kSpawn(self) == /\ pc[self] = "kSpawn"
                /\ spawned >= GenIdx(self)
                /\ pc' = [pc EXCEPT ![self] = "kEnter"]
                /\ UNCHANGED << queue, busy, closed, spawned, chClosed, curGen, 
                                attempts, started, ended, running, 
                                closeReturned, doneReturned, doneCut, oke, okw, 
                                capt, cur >>

kEnter(self) == /\ pc[self] = "kEnter"
                /\ IF queue # <<>>
                      THEN /\ cur' = [cur EXCEPT ![self] = Head(queue)]
                           /\ queue' = Tail(queue)
                           /\ pc' = [pc EXCEPT ![self] = "kRun"]
                      ELSE /\ pc' = [pc EXCEPT ![self] = "kDrained"]
                           /\ UNCHANGED << queue, cur >>
                /\ UNCHANGED << busy, closed, spawned, chClosed, curGen, 
                                attempts, started, ended, running, 
                                closeReturned, doneReturned, doneCut, oke, okw, 
                                capt >>

kRun(self) == /\ pc[self] = "kRun"
              /\ started' = Append(started, cur[self])
              /\ running' = (running \cup {cur[self]})
              /\ pc' = [pc EXCEPT ![self] = "kMid"]
              /\ UNCHANGED << queue, busy, closed, spawned, chClosed, curGen, 
                              attempts, ended, closeReturned, doneReturned, 
                              doneCut, oke, okw, capt, cur >>

kMid(self) == /\ pc[self] = "kMid"
              /\ IF cur[self] \in SelfEnq
                    THEN /\ IF ~closed
                               THEN /\ queue' = Append(queue, Child(cur[self]))
                                    /\ attempts' = Append(attempts, <<Child(cur[self]), TRUE, closeReturned>>)
                               ELSE /\ attempts' = Append(attempts, <<Child(cur[self]), FALSE, closeReturned>>)
                                    /\ queue' = queue
                    ELSE /\ TRUE
                         /\ UNCHANGED << queue, attempts >>
              /\ running' = running \ {cur[self]}
              /\ ended' = (ended \cup {cur[self]})
              /\ pc' = [pc EXCEPT ![self] = "kPop"]
              /\ UNCHANGED << busy, closed, spawned, chClosed, curGen, started, 
                              closeReturned, doneReturned, doneCut, oke, okw, 
                              capt, cur >>

kPop(self) == /\ pc[self] = "kPop"
              /\ IF queue # <<>>
                    THEN /\ cur' = [cur EXCEPT ![self] = Head(queue)]
                         /\ queue' = Tail(queue)
                         /\ pc' = [pc EXCEPT ![self] = "kRun"]
                    ELSE /\ cur' = [cur EXCEPT ![self] = "none"]
                         /\ pc' = [pc EXCEPT ![self] = "kDrained"]
                         /\ queue' = queue
              /\ UNCHANGED << busy, closed, spawned, chClosed, curGen, 
                              attempts, started, ended, running, closeReturned, 
                              doneReturned, doneCut, oke, okw, capt >>

kDrained(self) == /\ pc[self] = "kDrained"
                  /\ TRUE
                  /\ pc' = [pc EXCEPT ![self] = "kDefer"]
                  /\ UNCHANGED << queue, busy, closed, spawned, chClosed, 
                                  curGen, attempts, started, ended, running, 
                                  closeReturned, doneReturned, doneCut, oke, 
                                  okw, capt, cur >>

kDefer(self) == /\ pc[self] = "kDefer"
                /\ chClosed' = GenIdx(self)
                /\ IF queue = <<>> \/ (closed /\ Impl = "asis")
                      THEN /\ busy' = FALSE
                           /\ UNCHANGED << spawned, curGen >>
                      ELSE /\ spawned' = spawned + 1
                           /\ curGen' = spawned'
                           /\ busy' = busy
                /\ pc' = [pc EXCEPT ![self] = "Done"]
                /\ UNCHANGED << queue, closed, attempts, started, ended, 
                                running, closeReturned, doneReturned, doneCut, 
                                oke, okw, capt, cur >>

K(self) == kSpawn(self) \/ kEnter(self) \/ kRun(self) \/ kMid(self)
              \/ kPop(self) \/ kDrained(self) \/ kDefer(self)

(* Allow infinite stuttering to prevent deadlock on termination. *)
Terminating == /\ \A self \in ProcSet: pc[self] = "Done"
               /\ UNCHANGED vars

Next == (\E self \in Enqs: E(self))
           \/ (\E self \in Waiters: W(self))
           \/ (\E self \in Closers: C(self))
           \/ (\E self \in Gens: K(self))
           \/ Terminating

Spec == /\ Init /\ [][Next]_vars
        /\ \A self \in Enqs : WF_vars(E(self))
        /\ \A self \in Waiters : WF_vars(W(self))
        /\ \A self \in Closers : WF_vars(C(self))
        /\ \A self \in Gens : WF_vars(K(self))

Termination == <>(\A self \in ProcSet: pc[self] = "Done")

\* END TRANSLATION

-----------------------------------------------------------------------------
(* Normative properties of C05, stated on the model's history variables.     *)
(* The same statements are evaluated on recorded traces by OpsQueue_Trace.   *)

StartedOps == {started[i] : i \in 1..Len(started)}
AcceptedSeq == [i \in 1..Len(Accepted) |-> Accepted[i][1]]
IsPrefix(a, b) == Len(a) <= Len(b) /\ \A i \in 1..Len(a) : a[i] = b[i]

\* one item at a time
Serial == Cardinality(running) <= 1
\* in queue order, never twice, never something that was not accepted
Fifo == IsPrefix(started, AcceptedSeq)
NoDuplicates == \A i, j \in 1..Len(started) : started[i] = started[j] => i = j
\* Done returns only after everything queued before the wait has run
DoneCovers == \A w \in Waiters : doneReturned[w] =>
                 \A i \in 1..doneCut[w] : attempts[i][2] => attempts[i][1] \in ended
\* after a graceful close returned, nothing queued later runs
NothingAfterClose == \A i \in 1..Len(attempts) : attempts[i][3] => attempts[i][1] \notin StartedOps
\* exactly once: when the system is quiescent every accepted item has run
Quiescent == /\ ~busy
             /\ \A e \in Enqs : pc[e] = "Done"
             /\ \A c \in Closers : pc[c] = "Done"
             /\ \A w \in Waiters : pc[w] \in {"w2", "Done"}
RunsEverythingAccepted == Quiescent => AcceptedOps \subseteq ended
\* liveness form (under fairness of every process)
EventuallyAllRun == <>[](AcceptedOps \subseteq ended)
DoneReturns == \A w \in Waiters : <>(doneReturned[w])

TypeOK == /\ busy \in BOOLEAN /\ closed \in BOOLEAN /\ spawned \in 0..MaxGen + 1
          /\ running \subseteq Ops /\ ended \subseteq Ops

\* ---- schedule emission -------------------------------------------------
Actor == CHOOSE p \in ProcSet : pc[p] # pc'[p]
St == [pc |-> pc, queue |-> queue, busy |-> busy, closed |-> closed, spawned |-> spawned,
       attempts |-> attempts, started |-> started, ended |-> ended, cr |-> closeReturned,
       dr |-> doneReturned, cur |-> cur, capt |-> capt, chClosed |-> chClosed, okw |-> okw]
EmitInitInv == (\A p \in ProcSet : pc[p] \in {"e1", "w1", "c1", "kSpawn"}) => PrintT(<<"VERIF_INIT", ToJson(St)>>)
EmitEdge == PrintT(<<"VERIF_EDGE", ToJson([f |-> St, a |-> [proc |-> Actor, label |-> pc[Actor]], t |-> St'])>>)
=============================================================================
