CONSTANTS
  Impl = "intended"
  Space = "quick"
INIT Init
NEXT Next
INVARIANTS ModelCodecLaw ModelWriterImplementsFormat ModelRefusesIff ModelRoundTrip ModelReaderRejects ModelGoodPrefix
CHECK_DEADLOCK FALSE
