#!/usr/bin/env python3
"""Orchestrator: verif.py check <Cxx> [--tier quick|thorough] ; verif.py setup ; verif.py manifest"""
import argparse
import importlib.util
import os
import sys
import traceback

sys.path.insert(0, os.path.dirname(os.path.abspath(__file__)))
import vlib  # noqa: E402


def load_plan(prop):
    path = os.path.join(vlib.ROOT, "checks", prop + ".py")
    if not os.path.exists(path):
        raise SystemExit("no plan for " + prop)
    spec = importlib.util.spec_from_file_location("plan_" + prop, path)
    mod = importlib.util.module_from_spec(spec)
    spec.loader.exec_module(mod)
    return mod


def cmd_check(args):
    tier = args.tier or os.environ.get("VERIF_TIER") or "quick"
    seed = int(os.environ.get("VERIF_SEED") or "1")
    ctx = vlib.Ctx(args.prop, tier, seed)
    if args.replay:
        ctx.replay = args.replay
    else:
        ctx.replay = None
    try:
        rc = load_plan(args.prop).run(ctx)
    except vlib.NoVerdict as e:
        print("NO-VERDICT property=%s: %s" % (args.prop, e))
        rc = 2
    except Exception:
        traceback.print_exc()
        print("NO-VERDICT property=%s: internal error in the checking machinery" % args.prop)
        rc = 2
    finally:
        ctx.cleanup()
    sys.exit(rc)


def cmd_setup(args):
    """Warm the Go build cache for every harness package and make sure TLC starts."""
    ctx = vlib.Ctx("setup", "quick", 1)
    rc = 0
    import json
    reg = json.load(open(os.path.join(vlib.ROOT, "checks", "registry.json")))
    names = sorted({h for r in reg.values() for h in r.get("harness", [])})
    for pk in names:
        try:
            vlib.go_build(ctx, pk)
        except vlib.NoVerdict as e:
            print("setup: building harness %s failed: %s" % (pk, e))
            rc = 1
    ctx.cleanup()
    sys.exit(rc)


def main():
    ap = argparse.ArgumentParser()
    sub = ap.add_subparsers(dest="cmd", required=True)
    c = sub.add_parser("check")
    c.add_argument("prop")
    c.add_argument("--tier", choices=["quick", "thorough"])
    c.add_argument("--replay")
    c.set_defaults(fn=cmd_check)
    s = sub.add_parser("setup")
    s.set_defaults(fn=cmd_setup)
    args = ap.parse_args()
    args.fn(args)


if __name__ == "__main__":
    main()
