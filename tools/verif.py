#!/usr/bin/env python3
"""Orchestrator: verif.py check <Cxx> [--tier quick|thorough] ; verif.py setup ; verif.py manifest"""
import argparse
import importlib.util
import os
import sys
import traceback

sys.path.insert(0, os.path.dirname(os.path.abspath(__file__)))
import vlib  # noqa: E402


def load_plan(prop):
    path = os.path.join(vlib.ROOT, "checks", prop + ".py")
    if not os.path.exists(path):
        raise SystemExit("no plan for " + prop)
    spec = importlib.util.spec_from_file_location("plan_" + prop, path)
    mod = importlib.util.module_from_spec(spec)
    spec.loader.exec_module(mod)
    return mod


def replay(ctx, path):
    """Run the one behaviour / vector of a replay artefact through its driver again and let TLC judge the
    recorded trace with the same trace specification. Exit 1 if the artefact's predicate fails again."""
    import json
    import os
    art = json.load(open(path))
    rec, item = art.get("recipe"), art.get("input_item")
    if not rec or item is None:
        print("artefact has no replay recipe (it comes from a multi-stage plan): running the whole check with its seed")
        ctx.seed = art.get("seed", ctx.seed)
        return load_plan(ctx.prop).run(ctx)
    binary = vlib.go_build(ctx, rec["harness"], race=rec.get("race", False), tags=rec.get("tags", "verif"))
    infile = vlib.write_json(os.path.join(ctx.work, "replay-input.json"), [item])
    trace = os.path.join(ctx.work, "replay-trace.ndjson")
    vlib.go_run(ctx, binary, rec["test"], infile, trace, env=rec.get("env"), timeout=1200, allow_fail=True)
    viol = vlib.tlc_trace(ctx, rec["spec"], rec["cfg"], trace)
    want = art["violation"].get("pred")
    again = [v for v in viol if v.get("prop") == ctx.prop and v.get("pred") == want]
    for v in viol:
        print("  judged: prop=%s pred=%s sig=%s" % (v.get("prop"), v.get("pred"), v.get("sig")))
    if again:
        print("VIOLATION property=%s replay=%s" % (ctx.prop, path))
        print("  reproduced: pred=%s sig=%s" % (want, again[0].get("sig")))
        return 1
    print("not reproduced: predicate %s holds on the replayed behaviour" % want)
    return 0


def cmd_check(args):
    tier = args.tier or os.environ.get("VERIF_TIER") or "quick"
    seed = int(os.environ.get("VERIF_SEED") or "1")
    ctx = vlib.Ctx(args.prop, tier, seed)
    ctx.replay = args.replay
    try:
        if args.replay:
            rc = replay(ctx, args.replay)
        else:
            rc = load_plan(args.prop).run(ctx)
    except vlib.NoVerdict as e:
        print("NO-VERDICT property=%s: %s" % (args.prop, e))
        rc = 2
    except Exception:
        traceback.print_exc()
        print("NO-VERDICT property=%s: internal error in the checking machinery" % args.prop)
        rc = 2
    finally:
        ctx.cleanup()
    sys.exit(rc)


def cmd_selftest(args):
    """Binding demonstration: run the quick plan of a property and, for every trace specification it uses,
    corrupt single recorded fields until TLC notices (see vlib._binding_selftest). Exit 0 when every trace
    specification of the plan noticed a corruption, 2 otherwise."""
    os.environ["VERIF_SELFTEST"] = "1"
    ctx = vlib.Ctx(args.prop, "quick", int(os.environ.get("VERIF_SEED") or "1"))
    ctx.replay = None
    try:
        load_plan(args.prop).run(ctx)
    except vlib.NoVerdict as e:
        print("NO-VERDICT property=%s: %s" % (args.prop, e))
    finally:
        ctx.cleanup()
    st = getattr(ctx, "selftest", [])
    ok = bool(st) and all(x for _, x in st)
    print("SELFTEST property=%s: %s (%d trace specification run(s))" % (args.prop, "bound" if ok else "NOT demonstrated", len(st)))
    sys.exit(0 if ok else 2)


def cmd_setup(args):
    """Warm the Go build cache for every harness package and make sure TLC starts."""
    ctx = vlib.Ctx("setup", "quick", 1)
    rc = 0
    import json
    reg = json.load(open(os.path.join(vlib.ROOT, "checks", "registry.json")))
    names = sorted({h for r in reg.values() for h in r.get("harness", [])})
    for pk in names:
        try:
            vlib.go_build(ctx, pk)
        except vlib.NoVerdict as e:
            print("setup: building harness %s failed: %s" % (pk, e))
            rc = 1
    ctx.cleanup()
    sys.exit(rc)


def main():
    ap = argparse.ArgumentParser()
    sub = ap.add_subparsers(dest="cmd", required=True)
    c = sub.add_parser("check")
    c.add_argument("prop")
    c.add_argument("--tier", choices=["quick", "thorough"])
    c.add_argument("--replay")
    c.set_defaults(fn=cmd_check)
    t = sub.add_parser("selftest")
    t.add_argument("prop")
    t.set_defaults(fn=cmd_selftest)
    s = sub.add_parser("setup")
    s.set_defaults(fn=cmd_setup)
    args = ap.parse_args()
    args.fn(args)


if __name__ == "__main__":
    main()
