#!/usr/bin/env python3
"""Regenerates the machine-written tables of DESIGN.md (between <!-- BEGIN GENERATED:x --> and
<!-- END GENERATED:x -->) from checks/registry.json, evidence/*.json, KNOWN_FINDINGS.txt and
seeded/*/meta.json.  Prose is never touched."""
import glob
import json
import os
import re

ROOT = os.path.dirname(os.path.dirname(os.path.abspath(__file__)))


def status_table():
    reg = json.load(open(os.path.join(ROOT, "checks", "registry.json")))
    known, fixed = {}, {}
    for line in open(os.path.join(ROOT, "KNOWN_FINDINGS.txt")):
        m = re.match(r"(finding|fixed): property=(C\d+)", line)
        if m:
            d = known if m.group(1) == "finding" else fixed
            d[m.group(2)] = d.get(m.group(2), 0) + 1
    rows = ["| id | level | harness | TLC-judged evaluations (last run) | predicates | findings listed | fixes |",
            "|---|---|---|---|---|---|---|"]
    for pid in sorted(reg):
        ev = {}
        p = os.path.join(ROOT, "evidence", pid + ".json")
        if os.path.exists(p):
            ev = json.load(open(p)).get("coverage", {})
        preds = ev.get("predicates", {})
        rows.append("| %s | %s | %s | %s | %s | %s | %s |" % (
            pid, reg[pid]["level"], ", ".join(reg[pid].get("harness", [])), ev.get("evaluations", ""),
            ", ".join(sorted(preds)) if preds else "", known.get(pid, ""), fixed.get(pid, "")))
    return "\n".join(rows)


def seeded_table():
    rows = ["| change | property | what it does (short) | needs | result |", "|---|---|---|---|---|"]
    for mp in sorted(glob.glob(os.path.join(ROOT, "seeded", "*", "meta.json"))):
        m = json.load(open(mp))
        name = os.path.basename(os.path.dirname(mp))
        e = m.get("evaluation", {})
        by = [k for k, v in e.get("checks", {}).items() if v.get("rc") == 1]
        res = "caught by " + ", ".join(by) if e.get("caught") else "missed"
        if not e.get("demo_fails_with_change", True):
            res += " (demonstration did not fail in the evaluation run)"
        clip = lambda s, n: (s[:n].rsplit(" ", 1)[0] + " …") if len(s) > n else s
        rows.append("| %s | %s | %s | %s | %s |" % (
            name, m.get("breaks_property", ""), clip(m.get("summary", "").replace("|", "/").replace("\n", " "), 260),
            clip(m.get("needs", "").replace("|", "/").replace("\n", " "), 200), res))
    return "\n".join(rows)


def main():
    p = os.path.join(ROOT, "DESIGN.md")
    s = open(p).read()
    for key, fn in (("status", status_table), ("seeded", seeded_table)):
        a, b = "<!-- BEGIN GENERATED:%s -->" % key, "<!-- END GENERATED:%s -->" % key
        if a in s and b in s:
            s = s[:s.index(a) + len(a)] + "\n" + fn() + "\n" + s[s.index(b):]
    open(p, "w").write(s)


if __name__ == "__main__":
    main()
