#!/usr/bin/env python3
"""Regenerates the machine-written tables of DESIGN.md (between <!-- BEGIN GENERATED:x --> and
<!-- END GENERATED:x -->) from checks/registry.json, evidence/*.json, KNOWN_FINDINGS.txt and
seeded/*/meta.json.  Prose is never touched."""
import glob
import json
import os
import re

ROOT = os.path.dirname(os.path.dirname(os.path.abspath(__file__)))


def status_table():
    reg = json.load(open(os.path.join(ROOT, "checks", "registry.json")))
    known, fixed = {}, {}
    for line in open(os.path.join(ROOT, "KNOWN_FINDINGS.txt")):
        m = re.match(r"(finding|fixed): property=(C\d+)", line)
        if m:
            d = known if m.group(1) == "finding" else fixed
            d[m.group(2)] = d.get(m.group(2), 0) + 1
    rows = ["| id | level | harness | TLC-judged evaluations (last run) | predicates | findings listed | fixes |",
            "|---|---|---|---|---|---|---|"]
    for pid in sorted(reg):
        ev = {}
        p = os.path.join(ROOT, "evidence", pid + ".json")
        if os.path.exists(p):
            ev = json.load(open(p)).get("coverage", {})
        preds = ev.get("predicates", {})
        rows.append("| %s | %s | %s | %s | %s | %s | %s |" % (
            pid, reg[pid]["level"], ", ".join(reg[pid].get("harness", [])), ev.get("evaluations", ""),
            ", ".join(sorted(preds)) if preds else "", known.get(pid, ""), fixed.get(pid, "")))
    return "\n".join(rows)


def seeded_table():
    rows = ["| change | property | what it does (short) | needs | result |", "|---|---|---|---|---|"]
    for mp in sorted(glob.glob(os.path.join(ROOT, "seeded", "*", "meta.json"))):
        m = json.load(open(mp))
        name = os.path.basename(os.path.dirname(mp))
        e = m.get("evaluation", {})
        by = [k for k, v in e.get("checks", {}).items() if v.get("rc") == 1]
        res = "caught by " + ", ".join(by) if e.get("caught") else "missed"
        if not e.get("demo_fails_with_change", True):
            res += " (demonstration did not fail in the evaluation run)"
        clip = lambda s, n: (s[:n].rsplit(" ", 1)[0] + " …") if len(s) > n else s
        rows.append("| %s | %s | %s | %s | %s |" % (
            name, m.get("breaks_property", ""), clip(m.get("summary", "").replace("|", "/").replace("\n", " "), 260),
            clip(m.get("needs", "").replace("|", "/").replace("\n", " "), 200), res))
    return "\n".join(rows)


def modules_table():
    """Every TLA+ module under spec/: size, first line of its header comment, configurations, checks that run it."""
    checks = {}
    for cp in sorted(glob.glob(os.path.join(ROOT, "checks", "*.py"))):
        checks[os.path.basename(cp)[:-3]] = open(cp).read()
    fam = {"sdp_common": ["C06", "C07", "C08", "C09", "C10", "C11", "C12", "C16"], "jsep_common": ["C01", "C02", "C03"]}
    for common in ("annexb_common", "ivf_common", "ogg_common"):
        fam[common] = [c for c, t in checks.items() if re.match(r"C\d+$", c) and common in t]
    rows = ["| module | lines | configurations | used by | about |", "|---|---|---|---|---|"]
    for tp in sorted(glob.glob(os.path.join(ROOT, "spec", "*.tla"))):
        name = os.path.basename(tp)[:-4]
        text = open(tp).read()
        m = re.search(r"\(\*(.*?)\*\)", text, re.S)
        about = ""
        if m:
            about = " ".join(x.strip(" *") for x in m.group(1).splitlines())
            about = re.sub(r"\s+", " ", about).strip()
            about = (about[:150].rsplit(" ", 1)[0] + " …") if len(about) > 150 else about
        cfgs = [c for c in glob.glob(os.path.join(ROOT, "spec", "*.cfg"))
                if os.path.basename(c)[:-4] == name or os.path.basename(c).startswith(name + "_")]
        if name.endswith("_Trace"):
            cfgs = [c for c in cfgs if os.path.basename(c).startswith(name)]
        else:
            cfgs = [c for c in cfgs if "_Trace" not in os.path.basename(c)]
        users = set()
        for cname, ctext in checks.items():
            if re.search(r"[\"'/ ]%s[\"'._ ]" % re.escape(name), ctext):
                users |= set(fam.get(cname, [cname]))
        rows.append("| `%s` | %d | %d | %s | %s |" % (name, text.count("\n"), len(cfgs),
                    ", ".join(sorted(u for u in users if re.match(r"C\d+$", u))), about.replace("|", "/")))
    return "\n".join(rows)


def main():
    p = os.path.join(ROOT, "DESIGN.md")
    s = open(p).read()
    for key, fn in (("status", status_table), ("seeded", seeded_table), ("modules", modules_table)):
        a, b = "<!-- BEGIN GENERATED:%s -->" % key, "<!-- END GENERATED:%s -->" % key
        if a in s and b in s:
            s = s[:s.index(a) + len(a)] + "\n" + fn() + "\n" + s[s.index(b):]
    open(p, "w").write(s)


if __name__ == "__main__":
    main()
