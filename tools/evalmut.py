#!/usr/bin/env python3
"""Evaluate one seeded change: evalmut.py <seed dir with patch.diff, demo, meta.json> <property> <name> [checks...]
Copies /repo to a scratch tree, confirms that the demonstration passes without and fails with the patch,
runs the named checks (default: the property's own quick check) against the patched scratch tree and
stores everything under /verif/seeded/<name>/. Never touches /repo."""
import json
import os
import re
import shutil
import subprocess
import sys
import time

ROOT = os.path.dirname(os.path.dirname(os.path.abspath(__file__)))
sys.path.insert(0, os.path.join(ROOT, "tools"))
import vlib  # noqa: E402


def sh(cmd, cwd, timeout=1800, env=None):
    p = subprocess.run(cmd, cwd=cwd, shell=True, stdout=subprocess.PIPE, stderr=subprocess.STDOUT, text=True,
                       timeout=timeout, env=env or vlib.goenv())
    return p.returncode, p.stdout


def main():
    src, prop, name = sys.argv[1], sys.argv[2], sys.argv[3]
    checks = sys.argv[4:] or [prop]
    scratch = "/tmp/evalmut-%s" % name
    shutil.rmtree(scratch, ignore_errors=True)
    subprocess.run(["cp", "-r", "/repo", scratch], check=True)
    shutil.rmtree(os.path.join(scratch, ".git"), ignore_errors=True)
    sh("git init -q && git add -A && git -c user.email=a@b -c user.name=x commit -qm base", scratch)
    out = {"property": prop, "name": name, "checks": {}}
    meta = {}
    if os.path.exists(os.path.join(src, "meta.json")):
        try:
            meta = json.load(open(os.path.join(src, "meta.json")))
        except Exception:
            meta = {}
    # demonstration
    demo = None
    for f in sorted(os.listdir(src)):
        if f.endswith("_test.go") or f == "main.go":
            demo = f
    place = "."
    if demo:
        first = open(os.path.join(src, demo)).read(400)
        m = re.search(r"place in:\s*(\S+)", first)
        if m:
            place = m.group(1).strip().rstrip("/")
            if place in ("repository", "repo", "root", "the"):
                place = "."
    def run_demo():
        if not demo:
            return None, "no demo"
        dst = os.path.join(scratch, place, "zz_seeded_" + demo)
        shutil.copy(os.path.join(src, demo), dst)
        rc, o = sh("go test -vet=off -count=1 -run 'Seed|seed|Demo' ./%s 2>&1 | tail -30" % place, scratch, timeout=1200)
        ok = "ok  " in o and "FAIL" not in o
        os.remove(dst)
        return ok, o[-1500:]
    clean_ok, clean_out = run_demo()
    rc, o = sh("git apply --whitespace=nowarn %s" % os.path.join(os.path.abspath(src), "patch.diff"), scratch)
    if rc != 0:   # the tree moved on since the change was written: try with fuzz
        rc, o = sh("patch -p1 -F3 --no-backup-if-mismatch < %s" % os.path.join(os.path.abspath(src), "patch.diff"), scratch)
        if rc != 0:
            print("patch does not apply:", o[-500:])
            sys.exit(2)
    rc, o = sh("go build ./... 2>&1 | tail -5", scratch)
    out["builds"] = "FAIL" not in o and rc == 0
    mut_ok, mut_out = run_demo()
    out["demo_passes_without_change"] = clean_ok
    out["demo_fails_with_change"] = (mut_ok is False)
    out["demo_output_with_change"] = mut_out
    env = dict(os.environ)
    env["VERIF_REPO"] = scratch
    for c in checks:
        tier = "quick"
        if ":" in c:
            c, tier = c.split(":")
        t0 = time.time()
        p = subprocess.run(["./check", c, tier], cwd=ROOT, env=env, stdout=subprocess.PIPE, stderr=subprocess.STDOUT, text=True)
        viol = [l for l in p.stdout.splitlines() if l.startswith("VIOLATION") or l.startswith("  pred=")]
        out["checks"]["%s:%s" % (c, tier)] = {"rc": p.returncode, "wall_s": round(time.time() - t0, 1), "violations": viol[:12],
                                              "tail": p.stdout.splitlines()[-3:]}
        print(c, tier, "rc=%d" % p.returncode, "%.0fs" % (time.time() - t0))
    out["caught"] = any(v["rc"] == 1 for v in out["checks"].values())
    dst = os.path.join(ROOT, "seeded", name)
    os.makedirs(dst, exist_ok=True)
    if os.path.abspath(src) != os.path.abspath(dst):
        shutil.copy(os.path.join(src, "patch.diff"), os.path.join(dst, "patch.diff"))
    if demo:
        if os.path.abspath(src) != os.path.abspath(dst):
            shutil.copy(os.path.join(src, demo), os.path.join(dst, demo))
    meta_out = {"breaks_property": prop, "needs": meta.get("needs", ""), "summary": meta.get("summary", ""),
                "files": meta.get("files", []), "demo_placement": place, "evaluation": out,
                "what_was_run": ["copy of /repo + git apply patch.diff", "go build ./...", "demonstration without and with the change",
                                 "./check <id> <tier> with VERIF_REPO pointing at the patched copy"]}
    with open(os.path.join(dst, "meta.json"), "w") as fh:
        json.dump(meta_out, fh, indent=1)
    shutil.rmtree(scratch, ignore_errors=True)
    import glob, hashlib
    alt = hashlib.sha1(scratch.encode()).hexdigest()[:8]
    for f in glob.glob(os.path.join(ROOT, "build", "bin", "*-%s.test" % alt)) + glob.glob(os.path.join(ROOT, "build", "gen", "overlay-*-%s.json" % alt)):
        os.remove(f)
    print(json.dumps({k: out[k] for k in ("builds", "demo_passes_without_change", "demo_fails_with_change", "caught")}))


if __name__ == "__main__":
    main()
