#!/usr/bin/env python3
"""Regenerate MANIFEST.json from checks/registry.json and checks/not_applicable.json."""
import json
import os
import subprocess

ROOT = os.path.dirname(os.path.dirname(os.path.abspath(__file__)))
reg = json.load(open(os.path.join(ROOT, "checks", "registry.json")))
na_path = os.path.join(ROOT, "checks", "not_applicable.json")
na = json.load(open(na_path)) if os.path.exists(na_path) else {}
props = [json.loads(l)["id"] for l in open(os.path.join(ROOT, "properties.jsonl"))]
hook_commits = []
try:
    out = subprocess.run(["git", "-C", "/repo", "log", "--format=%H %s"], capture_output=True, text=True).stdout
    hook_commits = [l.split()[0] for l in out.splitlines() if l.split(" ", 1)[1].startswith("verif:")]
except Exception:
    pass
checks = []
for pid in props:
    if pid not in reg:
        continue
    r = reg[pid]
    checks.append({
        "property_id": pid,
        "quick_cmd": "./check %s quick" % pid,
        "thorough_cmd": "./check %s thorough" % pid,
        "evidence_file": "/verif/evidence/%s.json" % pid,
        "replay_cmd_template": "./check %s --replay {path}" % pid,
        "engine": "tlc-conformance",
        "level_claimed": {"category": r["level"], "text": r["text"], "design_ref": r["design_ref"]},
        "level_note": r["note"],
        "technique": r["technique"],
    })
manifest = {
    "version": 1,
    "setup_cmd": "python3 tools/verif.py setup",
    "hooks": {
        "guard": "verif",
        "enable": "go test -tags verif -overlay <generated overlay of /verif/harness> (tools/vlib.py go_build)",
        "baseline_off_cmd": "cd /repo && GOPROXY=off GOFLAGS=-mod=mod go test -json -vet=off -count=1 -timeout 25m ./...",
        "source_commits": hook_commits,
        "add_only": True,
    },
    "engines": [{
        "name": "tlc-conformance", "path": "/verif/tools/verif.py",
        "serves_properties": [c["property_id"] for c in checks],
        "kind_free_text": "explicit TLA+ specifications (spec/*.tla) model-checked with TLC; behaviours derived from the "
                          "TLC state graph or simulation are replayed into pion built from /repo (-tags verif, harness "
                          "overlaid with go test -overlay); recorded ndjson traces are validated by TLC against total, "
                          "accumulating trace specifications that evaluate the normative operators",
    }],
    "checks": checks,
    "not_applicable": [{"property_id": p, "reason": na.get(p, "check not built yet in this session (work in progress); see DESIGN.md section 4 for the plan")}
                       for p in props if p not in reg],
    "notes": "See DESIGN.md. Exit codes of every command: 0 held (KNOWN-FINDING lines for listed defects), 1 new violation, 2 no verdict.",
}
with open(os.path.join(ROOT, "MANIFEST.json"), "w") as fh:
    json.dump(manifest, fh, indent=1)
    fh.write("\n")
print("MANIFEST.json: %d checks, %d not_applicable" % (len(checks), len(manifest["not_applicable"])))
