"""Shared machinery for the pion/webrtc TLA+ conformance checks (see DESIGN.md section 2).

Stages offered to the per-property plans in /verif/checks/Cxx.py:

  tlc_check      exhaustive TLC run of a generative model (+ optional edge / vector emission)
  paths_*        derive behaviours from the emitted state graph
  go_run         build the overlay test binary from /repo's working tree (-tags verif) and run a driver
  tlc_trace      validate an ndjson trace recorded from pion with a total, accumulating trace spec
  finish         compare violations with KNOWN_FINDINGS.txt, write evidence, print verdict lines

Exit codes: 0 held (known findings are printed as KNOWN-FINDING lines), 1 new violation,
2 no verdict (tool failure, timeout, vacuous run).
"""
import hashlib
import json
import os
import random
import re
import shutil
import subprocess
import sys
import time

ROOT = os.path.dirname(os.path.dirname(os.path.abspath(__file__)))
REPO = os.environ.get("VERIF_REPO", "/repo")
SPEC = os.path.join(ROOT, "spec")
HARNESS = os.path.join(ROOT, "harness")
BUILD = os.path.join(ROOT, "build")
KNOWN = os.path.join(ROOT, "KNOWN_FINDINGS.txt")
MODULE = "github.com/pion/webrtc/v4"

def pkgdir(name):
    """Package of /repo (relative dir) a harness directory is overlaid into: first line of harness/<name>/PKG."""
    f = os.path.join(HARNESS, name, "PKG")
    if not os.path.exists(f):
        raise NoVerdict("harness/%s/PKG missing" % name)
    return open(f).read().split()[0]


class NoVerdict(Exception):
    """Raised when a stage cannot produce a verdict (exit code 2)."""


def goenv():
    env = dict(os.environ)
    env["GOPROXY"] = "off"
    env["GOFLAGS"] = "-mod=mod"
    env.pop("GOTOOLCHAIN", None)  # go.mod needs the cached 1.24 toolchain; 'local' cannot build it
    env.pop("GOSUMDB", None)
    return env


class Ctx:
    def __init__(self, prop, tier, seed):
        self.prop = prop
        self.tier = tier
        self.seed = seed
        self.rng = random.Random(seed)
        self.t0 = time.time()
        self.work = os.path.join(BUILD, "run", "%s-%s-%d" % (prop, tier, os.getpid()))
        shutil.rmtree(self.work, ignore_errors=True)
        os.makedirs(self.work)
        self.replay_dir = os.path.join(BUILD, "replay")
        os.makedirs(self.replay_dir, exist_ok=True)
        self.cov = {"states": 0, "transitions": 0, "traces_validated_against_impl": 0,
                    "evaluations": 0, "samples": [], "tlc_runs": [], "predicates": {}}
        self.assumptions = []
        self.viol = []          # normative violations observed on the real code
        self.incidental = []    # violations of other properties' predicates seen on the way
        self.notes = []
        self.quick = tier == "quick"

    def log(self, *a):
        print("[%s %6.1fs]" % (self.prop, time.time() - self.t0), *a, flush=True)

    def cleanup(self):
        if not os.environ.get("VERIF_KEEP"):
            shutil.rmtree(self.work, ignore_errors=True)


# ---------------------------------------------------------------------------------------------
# TLC

import threading  # noqa: E402
_TLC_LOCK = threading.Lock()
_TLC_SEQ = [0]

_PRINT_RE = re.compile(r'^<<"(VERIF_[A-Z_]+)", (.*)>>\s*$')


def _parse_printed(line):
    m = _PRINT_RE.match(line)
    if not m:
        return None
    tag, rest = m.group(1), m.group(2)
    try:
        vals = json.loads("[" + rest + "]")
    except Exception:
        return None
    out = []
    for v in vals:
        if isinstance(v, str) and v[:1] in "[{":
            try:
                v = json.loads(v)
            except Exception:
                pass
        out.append(v)
    return tag, out


class TlcResult:
    def __init__(self):
        self.generated = 0
        self.distinct = 0
        self.depth = 0
        self.rc = None
        self.stdout = ""
        self.printed = {}   # tag -> list of value lists
        self.wall = 0.0
        self.error = None
        self.coverage_zero = []

    def tag(self, t):
        return self.printed.get(t, [])


def run_tlc(ctx, spec, cfg, workers=8, simulate=None, depth=None, extra_env=None, timeout=900,
            coverage=False, deadlock=None, seed=None, quiet_ok=False, tool_opts=None):
    """Run TLC on spec/<spec>.tla with spec/<cfg>.cfg inside a scratch copy of the spec tree."""
    with _TLC_LOCK:
        _TLC_SEQ[0] += 1
        d = os.path.join(ctx.work, "tlc-%d-%d" % (os.getpid(), _TLC_SEQ[0]))
    os.makedirs(d)
    for f in os.listdir(SPEC):
        if f.endswith(".tla") or f.endswith(".cfg"):
            shutil.copy(os.path.join(SPEC, f), d)
    cmd = ["tlc", "-metadir", os.path.join(d, "meta"), "-workers", str(workers), "-config", cfg + ".cfg"]
    if simulate:
        cmd += ["-simulate", simulate]
    if depth:
        cmd += ["-depth", str(depth)]
    if coverage:
        cmd += ["-coverage", "1"]
    if deadlock is False:
        cmd += ["-deadlock"]
    cmd += ["-seed", str(seed if seed is not None else ctx.seed)]
    cmd += [spec + ".tla"]
    env = dict(os.environ)
    env["VERIF_SEED"] = str(ctx.seed)
    if extra_env:
        env.update({k: str(v) for k, v in extra_env.items()})
    if tool_opts:
        env["JAVA_TOOL_OPTIONS"] = tool_opts
    t0 = time.time()
    res = TlcResult()
    try:
        p = subprocess.run(["timeout", str(timeout)] + cmd, cwd=d, env=env, stdout=subprocess.PIPE,
                           stderr=subprocess.STDOUT, text=True, errors="replace")
    except Exception as e:  # pragma: no cover
        raise NoVerdict("cannot start TLC: %s" % e)
    res.wall = time.time() - t0
    res.rc = p.returncode
    res.stdout = p.stdout
    for line in p.stdout.splitlines():
        if line.startswith('<<"VERIF_'):
            pr = _parse_printed(line)
            if pr:
                res.printed.setdefault(pr[0], []).append(pr[1])
            continue
        m = re.match(r"^(\d+) states generated, (\d+) distinct states found", line)
        if m:
            res.generated, res.distinct = int(m.group(1)), int(m.group(2))
        m = re.match(r"^The depth of the complete state graph search is (\d+)", line)
        if m:
            res.depth = int(m.group(1))
        if coverage and re.search(r": 0$", line) and "line" in line:
            res.coverage_zero.append(line.strip())
    if res.rc == 124:
        raise NoVerdict("TLC timed out after %ss on %s/%s" % (timeout, spec, cfg))
    if res.rc not in (0,) and not quiet_ok:
        # keep the log for diagnosis
        tail = "\n".join([x for x in p.stdout.splitlines() if not x.startswith('<<"VERIF_')][-40:])[-3000:]
        res.error = tail
    ctx.cov["tlc_runs"].append({"spec": spec, "cfg": cfg, "rc": res.rc, "generated": res.generated,
                                "distinct": res.distinct, "depth": res.depth, "wall_s": round(res.wall, 2)})
    if not os.environ.get("VERIF_KEEP"):
        shutil.rmtree(os.path.join(d, "meta"), ignore_errors=True)
    return res


def tlc_model(ctx, spec, cfg, **kw):
    """Exhaustive check of a generative model; its invariants must hold on the model."""
    res = run_tlc(ctx, spec, cfg, **kw)
    if res.rc != 0:
        raise NoVerdict("model check %s/%s failed (rc=%s):\n%s" % (spec, cfg, res.rc, res.error))
    ctx.cov["states"] += res.distinct
    ctx.cov["transitions"] += res.generated
    ctx.log("TLC model %s/%s: %d generated, %d distinct, depth %d, %.1fs" %
            (spec, cfg, res.generated, res.distinct, res.depth, res.wall))
    return res


def tlc_expect_violation(ctx, spec, cfg, **kw):
    """Run the 'asis' variant of a model: TLC is expected to find the counterexample (rc 12/13).
    Returns the result; not finding one is recorded as model drift, never as a verdict."""
    res = run_tlc(ctx, spec, cfg, quiet_ok=True, **kw)
    ctx.cov["states"] += res.distinct
    ctx.cov["transitions"] += res.generated
    return res


# ---------------------------------------------------------------------------------------------
# behaviours from an emitted edge list

def canon(x):
    return json.dumps(x, sort_keys=True, separators=(",", ":"))


class Graph:
    def __init__(self, inits, edges):
        self.succ = {}
        self.nodes = {}
        self.inits = []
        seen = set()
        for s in inits:
            k = canon(s)
            self.nodes[k] = s
            if k not in self.inits:
                self.inits.append(k)
        for f, a, t in edges:
            kf, kt = canon(f), canon(t)
            ek = (kf, canon(a), kt)
            if ek in seen:
                continue
            seen.add(ek)
            self.nodes.setdefault(kf, f)
            self.nodes.setdefault(kt, t)
            self.succ.setdefault(kf, []).append((a, kt))
        self.nedges = len(seen)

    def edge_cover(self, rng, maxlen, want=None, tail=0, maximal=False):
        """Paths from an initial state such that every edge (for which want(action, from, to) holds)
        is on at least one path. Paths are extended greedily through uncovered wanted edges and then
        by `tail` further random steps (to observe that the endpoint is still usable)."""
        prefix = {}
        order = []
        for i in self.inits:
            prefix[i] = []
            order.append(i)
        qi = 0
        while qi < len(order):
            n = order[qi]
            qi += 1
            for a, t in self.succ.get(n, []):
                if t not in prefix:
                    prefix[t] = prefix[n] + [(n, a, t)]
                    order.append(t)
        covered = set()
        paths = []

        def wanted(n, a, t):
            return want is None or want(a, self.nodes[n], self.nodes[t])

        for n in order:
            for a, t in self.succ.get(n, []):
                ek = (n, canon(a), t)
                if ek in covered or not wanted(n, a, t):
                    continue
                p = prefix[n] + [(n, a, t)]
                onpath = {(x, canon(y), z) for x, y, z in p}
                cur = t
                while len(p) < maxlen:
                    nxt = [(a2, t2) for a2, t2 in self.succ.get(cur, [])
                           if wanted(cur, a2, t2) and (cur, canon(a2), t2) not in covered
                           and (cur, canon(a2), t2) not in onpath]
                    if not nxt and maximal:   # keep walking to a terminal state through covered edges
                        nxt = list(self.succ.get(cur, []))
                    if not nxt:
                        break
                    a2, t2 = nxt[rng.randrange(len(nxt))]
                    p.append((cur, a2, t2))
                    onpath.add((cur, canon(a2), t2))
                    cur = t2
                for _ in range(tail):
                    s = self.succ.get(cur, [])
                    if not s:
                        break
                    a2, t2 = s[rng.randrange(len(s))]
                    p.append((cur, a2, t2))
                    cur = t2
                for x, y, z in p:
                    covered.add((x, canon(y), z))
                paths.append(p)
        return paths

    def random_walks(self, rng, n, maxlen):
        paths = []
        for _ in range(n):
            cur = self.inits[rng.randrange(len(self.inits))]
            p = []
            while len(p) < maxlen:
                s = self.succ.get(cur, [])
                if not s:
                    break
                a, t = s[rng.randrange(len(s))]
                p.append((cur, a, t))
                cur = t
            if p:
                paths.append(p)
        return paths

    def all_paths(self, maxlen, cap):
        """Every maximal path (length <= maxlen); None if more than cap."""
        out = []
        stack = [(i, []) for i in self.inits]
        while stack:
            n, p = stack.pop()
            s = self.succ.get(n, [])
            if not s or len(p) >= maxlen:
                if p:
                    out.append(p)
                    if len(out) > cap:
                        return None
                continue
            for a, t in s:
                stack.append((t, p + [(n, a, t)]))
        return out


def graph_from(res):
    inits = [v[0] for v in res.tag("VERIF_INIT")]
    edges = [(v[0]["f"], v[0]["a"], v[0]["t"]) for v in res.tag("VERIF_EDGE")
             if not (isinstance(v[0]["a"], dict) and v[0]["a"].get("label") == "Done")]  # PlusCal's Terminating
    return Graph(inits, edges)


def behaviours_from_paths(paths):
    return [{"id": i, "steps": [a for _, a, _ in p]} for i, p in enumerate(paths)]


# ---------------------------------------------------------------------------------------------
# Go drivers (overlay build from /repo's current working tree)

def _overlay(pkgs):
    """Build the overlay json for the given harness dirs; returns its path."""
    gen = os.path.join(BUILD, "gen")
    os.makedirs(gen, exist_ok=True)
    repl = {}
    for pk in pkgs:
        src = os.path.join(HARNESS, pk)
        dst = os.path.normpath(os.path.join(REPO, pkgdir(pk)))
        if os.path.isdir(src):
            for f in sorted(os.listdir(src)):
                if f.endswith(".go"):
                    repl[os.path.join(dst, "zz_verif_" + f)] = os.path.join(src, f)
        # shared kit, instantiated for the package (and its external test package when needed)
        pkgname = _pkgname(dst)
        kit = open(os.path.join(HARNESS, "kit", "kit.go.tmpl")).read()
        g = os.path.join(gen, pk)
        os.makedirs(g, exist_ok=True)
        out = os.path.join(g, "kit_test.go")
        body = kit.replace("PKGNAME", pkgname)
        if not os.path.exists(out) or open(out).read() != body:
            with open(out, "w") as fh:
                fh.write(body)
        repl[os.path.join(dst, "zz_verif_kit_test.go")] = out
    alt = "" if REPO == "/repo" else "-" + hashlib.sha1(REPO.encode()).hexdigest()[:8]
    path = os.path.join(gen, "overlay-%s%s.json" % ("-".join(sorted(pkgs)), alt))
    body = json.dumps({"Replace": repl}, indent=1)
    if not os.path.exists(path) or open(path).read() != body:
        with open(path, "w") as fh:
            fh.write(body)
    return path


def _pkgname(d):
    for f in sorted(os.listdir(d)):
        if f.endswith(".go") and not f.endswith("_test.go"):
            for line in open(os.path.join(d, f)):
                m = re.match(r"^package\s+(\w+)", line)
                if m:
                    return m.group(1)
    raise NoVerdict("no package clause in " + d)


def go_build(ctx, pk, race=False, tags="verif"):
    """Compile the test binary of one /repo package with the harness overlaid. Incremental."""
    ov = _overlay([pk])
    bindir = os.path.join(BUILD, "bin")
    os.makedirs(bindir, exist_ok=True)
    # a check pointed at another tree (VERIF_REPO) must never share a binary with one running on /repo
    alt = "" if REPO == "/repo" else "-" + hashlib.sha1(REPO.encode()).hexdigest()[:8]
    final = os.path.join(bindir, "%s%s%s.test" % (pk, "-race" if race else "", alt))
    tmp = final + ".%d" % os.getpid()
    pkgpath = "./" + pkgdir(pk) if pkgdir(pk) != "." else "."
    cmd = ["go", "test", "-c", "-vet=off", "-tags", tags, "-overlay", ov, "-o", tmp]
    if race:
        cmd.append("-race")
    cmd.append(pkgpath)
    t0 = time.time()
    p = subprocess.run(cmd, cwd=REPO, env=goenv(), stdout=subprocess.PIPE, stderr=subprocess.STDOUT, text=True)
    if p.returncode != 0:
        raise NoVerdict("go build of %s with harness failed:\n%s" % (pk, p.stdout[-4000:]))
    os.replace(tmp, final)
    ctx.log("built %s in %.1fs" % (os.path.basename(final), time.time() - t0))
    if not hasattr(ctx, "recipes"):
        ctx.recipes, ctx.binaries = {}, {}
    ctx.binaries[final] = {"harness": pk, "race": race, "tags": tags}
    return final


def go_run(ctx, binary, test, infile=None, outfile=None, env=None, timeout=600, cwd=None, allow_fail=False):
    """Run one driver (a Test function of the overlay) and return (rc, output)."""
    e = goenv()
    e["VERIF_SEED"] = str(ctx.seed)
    e["VERIF_TIER"] = ctx.tier
    if infile:
        e["VERIF_IN"] = infile
    if outfile:
        e["VERIF_OUT"] = outfile
    if env:
        e.update({k: str(v) for k, v in env.items()})
    if outfile and hasattr(ctx, "binaries") and binary in ctx.binaries:
        ctx.recipes[outfile] = dict(ctx.binaries[binary], test=test, infile=infile,
                                    env={k: str(v) for k, v in (env or {}).items()})
    cmd = ["timeout", "-k", "5", str(timeout), binary, "-test.run", "^" + test + "$", "-test.count=1",
           "-test.timeout", "%ds" % (timeout + 30), "-test.v"]
    p = subprocess.run(cmd, cwd=cwd or os.path.join(REPO, "."), env=e, stdout=subprocess.PIPE,
                       stderr=subprocess.STDOUT, text=True, errors="replace")
    if p.returncode != 0 and not allow_fail:
        raise NoVerdict("driver %s failed rc=%d:\n%s" % (test, p.returncode, p.stdout[-6000:]))
    return p.returncode, p.stdout


def write_json(path, obj):
    with open(path, "w") as fh:
        json.dump(obj, fh)
    return path


def read_ndjson(path):
    out = []
    with open(path) as fh:
        for line in fh:
            line = line.strip()
            if line:
                out.append(json.loads(line))
    return out


# ---------------------------------------------------------------------------------------------
# trace validation

def tlc_trace(ctx, spec, cfg, trace, timeout=900, extra_env=None, chunk=8000):
    """Validate an ndjson trace with a total, accumulating trace spec. Returns list of violation
    records (dicts with prop, pred, trace, line, sig) and per-predicate evaluation counts.
    Long traces are cut at 'reset' lines into chunks so that each TLC run stays small."""
    lines = [l for l in open(trace).read().splitlines() if l.strip()]
    if not lines:
        raise NoVerdict("empty trace %s" % trace)
    chunks, cur = [], []
    for l in lines:
        if len(cur) >= chunk and '"ev":"reset"' in l.replace(" ", ""):
            chunks.append(cur)
            cur = []
        cur.append(l)
    if cur:
        chunks.append(cur)
    viol, counts, total_lines = [], {}, 0

    def one(arg):
        i, ch = arg
        p = os.path.join(ctx.work, "chunk-%s-%d.ndjson" % (os.path.basename(trace), i))
        with open(p, "w") as fh:
            fh.write("\n".join(ch) + "\n")
        env = {"VERIF_TRACE": p}
        if extra_env:
            env.update(extra_env)
        res = run_tlc(ctx, spec, cfg, workers=1, extra_env=env, timeout=timeout, quiet_ok=True)
        os.remove(p)
        return i, ch, res

    # chunks are independent (every chunk starts at a 'reset' line): validate them side by side
    from concurrent.futures import ThreadPoolExecutor
    par = max(1, min(len(chunks), int(os.environ.get("VERIF_TRACE_PAR", "6"))))
    with ThreadPoolExecutor(par) as ex:
        results = list(ex.map(one, list(enumerate(chunks))))
    for i, ch, res in results:
        rep = res.tag("VERIF_VIOL")
        if res.rc != 0 or not rep:
            raise NoVerdict("trace validation %s/%s did not complete (rc=%s):\n%s" %
                            (spec, cfg, res.rc, "\n".join(res.stdout.splitlines()[-30:])))
        last = rep[-1]
        v, nlines = last[0], last[2] if len(last) > 2 else None
        if nlines != len(ch):
            raise NoVerdict("trace spec consumed %s of %d lines" % (nlines, len(ch)))
        for r in (v if isinstance(v, list) else []):
            r = dict(r)
            r["chunk"] = i
            rec = getattr(ctx, "recipes", {}).get(trace)
            if rec:
                r["_recipe"] = dict(rec, spec=spec, cfg=cfg)
            viol.append(r)
        for c in res.tag("VERIF_COUNT"):
            for k, n in (c[0] or {}).items():
                counts[k] = counts.get(k, 0) + n
        total_lines += len(ch)
    ctx.cov["trace_lines_validated"] = ctx.cov.get("trace_lines_validated", 0) + total_lines
    for k, n in counts.items():
        ctx.cov["predicates"][k] = ctx.cov["predicates"].get(k, 0) + n
    ctx.log("TLC trace %s: %d lines, %d violation records" % (spec, total_lines, len(viol)))
    if os.environ.get("VERIF_SELFTEST") and not getattr(ctx, "_in_selftest", False):
        ctx._in_selftest = True
        try:
            _binding_selftest(ctx, spec, cfg, chunks[0], len([v for v in viol if v.get("chunk") == 0]), timeout, extra_env)
        finally:
            ctx._in_selftest = False
    return viol


def _binding_selftest(ctx, spec, cfg, lines, base_viol, timeout, extra_env):
    """Demonstration that the trace specification is bound to what the driver recorded: single recorded fields
    of the first chunk are corrupted, one at a time (a boolean flipped, a number moved, a string replaced, an
    array emptied or doubled), and TLC must notice -- more violation records than on the genuine trace, or a
    rejected trace.  Prints one SELFTEST line per trace specification; never part of a verdict."""
    import json as _json
    import random as _random
    rng = _random.Random(ctx.seed)
    recs = [(_i, _json.loads(l)) for _i, l in enumerate(lines)]
    cands = []
    for i, e in recs:
        if e.get("ev") == "reset":
            continue
        for k, v in e.items():
            if k in ("ev", "t", "sig", "seq"):
                continue
            cands.append((i, k))
    rng.shuffle(cands)
    seen_fields, tried = {}, 0
    for i, k in cands:
        ev = recs[i][1].get("ev")
        if seen_fields.get((ev, k), 0) >= 4:      # a field is tried on up to four different lines
            continue
        seen_fields[(ev, k)] = seen_fields.get((ev, k), 0) + 1
        if tried >= int(os.environ.get("VERIF_SELFTEST_TRIES", "40")):
            break
        e = dict(recs[i][1])
        v = e[k]
        if isinstance(v, bool):
            e[k] = not v
        elif isinstance(v, int):
            e[k] = v + 1 if v >= 0 else v - 1
        elif isinstance(v, str):
            e[k] = "none" if v != "none" else "corrupted"
        elif isinstance(v, list):
            e[k] = [] if v else None
            if e[k] is None:
                continue
        else:
            continue
        tried += 1
        mut = list(lines)
        mut[i] = _json.dumps(e)
        pth = os.path.join(ctx.work, "selftest-%s-%d.ndjson" % (spec, tried))
        with open(pth, "w") as fh:
            fh.write("\n".join(mut) + "\n")
        env = {"VERIF_TRACE": pth}
        if extra_env:
            env.update(extra_env)
        res = run_tlc(ctx, spec, cfg, workers=1, extra_env=env, timeout=timeout, quiet_ok=True)
        os.remove(pth)
        rep = res.tag("VERIF_VIOL")
        if res.rc != 0 or not rep:
            print("SELFTEST spec=%s: corrupting %s.%s on line %d (%r -> %r): trace rejected by TLC" % (spec, ev, k, i + 1, v, e[k]))
            ctx.selftest = getattr(ctx, "selftest", []) + [(spec, True)]
            return
        last = rep[-1]
        nv = len(last[0]) if isinstance(last[0], list) else 0
        if nv > base_viol:
            what = sorted({r.get("pred", "") for r in last[0]})
            print("SELFTEST spec=%s: corrupting %s.%s on line %d (%r -> %r): %d more violation record(s) [%s]" %
                  (spec, ev, k, i + 1, v, e[k], nv - base_viol, ", ".join(what)[:200]))
            ctx.selftest = getattr(ctx, "selftest", []) + [(spec, True)]
            return
    print("SELFTEST spec=%s: none of %d single-field corruptions was noticed" % (spec, tried))
    ctx.selftest = getattr(ctx, "selftest", []) + [(spec, False)]


# ---------------------------------------------------------------------------------------------
# verdict

def load_known():
    known, fixed = [], []
    files = [KNOWN] if os.path.exists(KNOWN) else []
    fd = os.path.join(ROOT, "checks", "findings")   # staging area, merged into KNOWN_FINDINGS.txt
    if os.path.isdir(fd):
        files += [os.path.join(fd, f) for f in sorted(os.listdir(fd)) if f.endswith(".txt")]
    for path in files:
        for line in open(path):
            line = line.strip()
            if not line or line.startswith("#"):
                continue
            m = re.match(r"^finding:\s+property=(\S+)\s+sig=(\S+)\s*(.*)$", line)
            if m:
                known.append({"prop": m.group(1), "sig": m.group(2), "what": m.group(3)})
                continue
            m = re.match(r"^fixed:\s+property=(\S+)\s+(\S+)\s*(.*)$", line)
            if m:
                fixed.append({"prop": m.group(1), "commit": m.group(2), "what": m.group(3)})
    return known, fixed


def sig_matches(pattern, sig):
    """Known-finding signatures are exact strings, optionally with '*' wildcards inside fields."""
    rx = "^" + ".*".join(re.escape(p) for p in pattern.split("*")) + "$"
    return re.match(rx, sig) is not None


def finish(ctx, level, rule, distinct_nontrivial, exhaustive=False, explanation=None, replay_of=None):
    """Print verdict lines, write evidence, return the exit code."""
    known, _ = load_known()
    own = [v for v in ctx.viol if v.get("prop") == ctx.prop]
    other = [v for v in ctx.viol if v.get("prop") != ctx.prop]
    hits, new = {}, []
    for v in ctx.viol:
        if v not in own:
            v.pop("_recipe", None)
    for v in own:
        s = v.get("sig", "")
        k = next((k for k in known if k["prop"] == ctx.prop and sig_matches(k["sig"], s)), None)
        if k:
            hits.setdefault(k["sig"], [k, 0])[1] += 1
        else:
            new.append(v)
    for s, (k, n) in sorted(hits.items()):
        print("KNOWN-FINDING: property=%s sig=%s %s (seen %d times)" % (ctx.prop, s, k["what"], n))
    rc = 0
    replay_path = None
    if new:
        rc = 1
        # one replay artefact per distinct signature; the first is printed
        bysig = {}
        for v in new:
            bysig.setdefault(v.get("sig", ""), v)
        for i, (s, v) in enumerate(sorted(bysig.items())):
            h = hashlib.sha1((ctx.prop + s).encode()).hexdigest()[:10]
            rp = os.path.join(ctx.replay_dir, "%s-%s.json" % (ctx.prop, h))
            rec = v.pop("_recipe", None)
            art = {"property": ctx.prop, "violation": v, "seed": ctx.seed, "tier": ctx.tier}
            if rec:
                # what `./check <id> --replay <this file>` needs: the driver, the trace specification and the one
                # input item (behaviour / vector) the violating trace was recorded from
                item = None
                try:
                    items = json.load(open(rec["infile"])) if rec.get("infile") else None
                    if isinstance(items, list):
                        byid = [x for x in items if isinstance(x, dict) and x.get("id") == v.get("trace")]
                        item = byid[0] if byid else (items[v["trace"]] if isinstance(v.get("trace"), int) and v["trace"] < len(items) else None)
                except Exception:
                    item = None
                art["recipe"] = {k: rec[k] for k in ("harness", "race", "tags", "test", "env", "spec", "cfg")}
                art["input_item"] = item
            if replay_of:
                try:
                    art["behaviour"] = replay_of(v)
                except Exception as e:  # pragma: no cover
                    art["behaviour_error"] = str(e)
            with open(rp, "w") as fh:
                json.dump(art, fh, indent=1)
            if i < 10:
                print("VIOLATION property=%s replay=%s" % (ctx.prop, rp))
                print("  pred=%s sig=%s detail=%s" % (v.get("pred"), s, json.dumps(v.get("detail", ""))[:300]))
            elif i == 10:
                print("  ... %d more distinct signatures (all listed in %s)" %
                      (len(bysig) - 10, os.path.join(ctx.replay_dir, ctx.prop + "-signatures.txt")))
        with open(os.path.join(ctx.replay_dir, ctx.prop + "-signatures.txt"), "w") as fh:
            for s in sorted(bysig):
                fh.write(s + "\n")
    cov = ctx.cov
    cov["rule"] = rule
    cov["distinct_nontrivial"] = int(distinct_nontrivial)
    cov["exhaustive"] = bool(exhaustive)
    if explanation:
        cov["explanation"] = explanation
    cov["known_findings_seen"] = sorted(hits.keys())
    cov["incidental_other_properties"] = sorted({"%s:%s" % (v.get("prop"), v.get("pred")) for v in other})
    if not cov["samples"]:
        cov["samples"] = ["(none)"]
    cov["samples"] = cov["samples"][:8]
    if cov["states"] == 0:
        cov.pop("states")
        cov.pop("transitions")
    ev = {"property_id": ctx.prop, "tier": ctx.tier, "seed": ctx.seed, "level": level, "coverage": cov,
          "assumptions": ctx.assumptions, "wall_s": round(time.time() - ctx.t0, 2), "violations": len(new),
          "notes": ctx.notes}
    # evidence/ describes runs against /repo only; a run pointed elsewhere (VERIF_REPO) writes under build/
    evdir = os.path.join(ROOT, "evidence") if REPO == "/repo" else os.path.join(BUILD, "evidence-other-tree")
    if os.environ.get("VERIF_SELFTEST"):
        evdir = os.path.join(BUILD, "evidence-selftest")   # a demonstration run does not replace the evidence
    os.makedirs(evdir, exist_ok=True)
    with open(os.path.join(evdir, ctx.prop + ".json"), "w") as fh:
        json.dump(ev, fh, indent=1, sort_keys=True)
        fh.write("\n")
    ctx.log("verdict rc=%d: %d new violation(s), %d known-finding signature(s), evaluations=%d" %
            (rc, len(new), len(hits), cov.get("evaluations", 0)))
    return rc
